import DefraModel.Crdt.Model

/-!
Executable form of the well-formedness the end-to-end merge theorem assumes of a block store (`StoreWF2` in
`Proofs/CrdtMergeDocRefine.lean`): evaluated by `drv crdt` on every block store the implementation produced, so that
the theorem's hypotheses are checked on the real stores rather than assumed.
-/
namespace Defra.Crdt

def isFieldKind : Kind → Bool
  | .field _ => true
  | _ => false

def blockOk (bs : Blocks) (b : Block) : Bool :=
  b.parents.all (fun p => match bs.get? p with
    | some pb => decide (pb.height < b.height)
    | none => false) &&
  (!(b.kind == .comp) ||
    (b.parents.all (fun p => match bs.get? p with
      | some pb => pb.kind == .comp && pb.doc == b.doc
      | none => false) &&
     b.links.all (fun l => match bs.get? l with
      | some lb => isFieldKind lb.kind && lb.links.isEmpty
      | none => false)))

/-- identifiers are distinct and every block passes `blockOk` -/
def wfCheck (bs : Blocks) : Bool :=
  decide ((bs.map (·.id)).Nodup) && bs.all (blockOk bs)

/-- the heads of a document are distinct stored composites -/
def headsCheck (bs : Blocks) (heads : List Nat) : Bool :=
  decide heads.Nodup && heads.all (fun h => match bs.get? h with
    | some b => b.kind == .comp
    | none => false)

end Defra.Crdt
