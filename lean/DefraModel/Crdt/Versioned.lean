/-
Mirror of the (repaired) versioned fetcher, /repo/internal/db/fetcher/versioned.go:
`seekNext` copies the target and every ancestor (all heads, all links) into a scratch store and queues
each composite once; `seekTo` sorts the queue by height and `merge`s each queued block once, which applies
the block's delta and then the linked (field) blocks, each once (the recursion over links is bounded by the number of
stored blocks, which never limits it).  Only the visible values matter for the
query, head bookkeeping of the scratch store is not modelled.  Core-only.
-/
import DefraModel.Crdt.Model
namespace Defra.Crdt

/-- enough fuel for the worklist walk: one step per queued identifier, and a block queues its parents once -/
def seekFuel (bs : Blocks) : Nat := (bs.map (fun b => b.parents.length + 1)).sum + 2

/-- `seekNext`: queue of composites (and collection blocks) reachable through heads, each once -/
def seekQueue (bs : Blocks) (c : Nat) : List Nat := closureAux bs (seekFuel bs) [c] []

/-- `merge`: apply the block and its links, each block once (`merged` is the visited set) -/
def vmerge (bs : Blocks) : Nat → (Vals × List Nat) → Nat → (Vals × List Nat)
  | 0, acc, _ => acc
  | fuel + 1, (s, merged), c =>
    if merged.contains c then (s, merged)
    else match bs.get? c with
      | none => (s, merged ++ [c])
      | some b => b.links.foldl (fun acc l => vmerge bs fuel acc l) (applyDelta s b, merged ++ [c])

/-- state of the scratch store after `seekTo c` -/
def versionedVals (bs : Blocks) (c : Nat) : Vals :=
  let queue := sortByHeight ((seekQueue bs c).filterMap bs.get?)
  (queue.foldl (fun acc b => vmerge bs (bs.length + 1) acc b.id) (({} : Vals), ([] : List Nat))).1

end Defra.Crdt
