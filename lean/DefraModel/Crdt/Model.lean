/-
Mirror of the CRDT merge path of DefraDB (as repaired by the `fix:` commit):
  internal/core/block/heads.go, store.go (`updateHeads`, `ProcessBlock`, `AddDelta` height rule),
  internal/core/crdt/{lww,counter,composite,collection}.go (`setValue`, `incrementValue`, `Merge`),
  internal/db/merge.go (`isMerged`, `loadComposites`, `processComposites`, `processBlock`,
  `processLinkedComposite`, `executeMerge`).
Blocks are identified by small naturals (the harness' labels); LWW values are the CBOR bytes of the
real deltas.  Core-only: linked into `drv`.
-/
import DefraModel.Bytes
namespace Defra.Crdt

inductive Kind where
  | comp
  | field (name : String)
  | col
  deriving DecidableEq, Repr, Inhabited

inductive Delta where
  | lww (v : Bytes)
  | ctr (i : Int)
  | comp (deleted : Bool)
  | col
  deriving DecidableEq, Repr, Inhabited

structure Block where
  id : Nat
  kind : Kind
  doc : String
  height : Nat
  parents : List Nat
  links : List Nat
  delta : Delta
  deriving Repr, Inhabited, DecidableEq

/-- CBOR null (`client.CborNil`) -/
def cborNil : Bytes := [0xf6]

/-- finite maps over field names as functions (lookup is all the model ever does) -/
abbrev FMap (β : Type) := String → Option β

def FMap.set {β : Type} (m : FMap β) (k : String) (v : β) : FMap β := fun x => if x = k then some v else m x

/-- the part of a document's state that queries show: marker, register values, counters -/
structure Vals where
  /-- object marker: none = absent, some false = active, some true = deleted -/
  marker : Option Bool := none
  /-- per LWW field: (priority, value); a null value is stored as absence of the value key,
      represented here by `cborNil` -/
  lww : FMap (Nat × Bytes) := fun _ => none
  /-- per counter field: current sum -/
  ctr : FMap Int := fun _ => none

/-- state of one document on one replica -/
structure DocState where
  vals : Vals := {}
  /-- composite head set -/
  heads : List Nat := []
  /-- per field head set -/
  fheads : String → List Nat := fun _ => []

instance : Inhabited DocState := ⟨{}⟩

structure Replica where
  docs : List (String × DocState) := []
  colHeads : List Nat := []

instance : Inhabited Replica := ⟨{}⟩

abbrev Blocks := List Block

def Blocks.get? (bs : Blocks) (id : Nat) : Option Block := bs.find? (·.id == id)

def assocGet {β : Type} (l : List (String × β)) (k : String) : Option β :=
  (l.find? (·.1 == k)).map (·.2)

def assocSet {β : Type} (l : List (String × β)) (k : String) (v : β) : List (String × β) :=
  if l.any (·.1 == k) then l.map (fun p => if p.1 == k then (k, v) else p) else l ++ [(k, v)]

def Replica.doc (r : Replica) (d : String) : DocState := (assocGet r.docs d).getD {}
def Replica.setDoc (r : Replica) (d : String) (s : DocState) : Replica := { r with docs := assocSet r.docs d s }

/-! ### CRDT merges -/

/-- `LWW.setValue`: lower priority loses; equal priority is decided by `bytes.Compare`
    (current `>=` new keeps current); a missing current value compares as CBOR null -/
def lwwMerge (cur : Option (Nat × Bytes)) (prio : Nat) (val : Bytes) : Nat × Bytes :=
  match cur with
  | none => (prio, val)      -- curPrio = 0 < prio (heights start at 1)
  | some (cp, cv) =>
    if prio < cp then (cp, cv)
    else if prio = cp then (if Bytes.lt cv val then (prio, val) else (cp, cv))
    else (prio, val)

/-- `DocComposite.Merge` on the marker: delete wins and is sticky; otherwise ensure a marker exists -/
def markerMerge (m : Option Bool) (deleted : Bool) : Option Bool :=
  if deleted then some true
  else match m with
    | none => some false
    | some x => some x

/-- apply the delta of one block to the document state (`crdt.Merge`) -/
def applyDelta (s : Vals) (b : Block) : Vals :=
  match b.kind, b.delta with
  | .field f, .lww v => { s with lww := s.lww.set f (lwwMerge (s.lww f) b.height v) }
  | .field f, .ctr i => { s with ctr := s.ctr.set f ((s.ctr f).getD 0 + i) }
  | .comp, .comp d => { s with marker := markerMerge s.marker d }
  | _, _ => s

/-- `updateHeads` on one head set: a block without parents is written; every parent/link that is a head
    is replaced by the block; a parent/link that is stored but not a head makes the block a new head -/
def updateHeads (known : Nat → Bool) (heads : List Nat) (b : Block) : List Nat :=
  let h0 := if b.parents.isEmpty then (if heads.contains b.id then heads else heads ++ [b.id]) else heads
  (b.parents ++ b.links).foldl (fun h l =>
    if h.contains l then (h.erase l |> fun h' => if h'.contains b.id then h' else h' ++ [b.id])
    else if known l then (if h.contains b.id then h else h ++ [b.id])
    else h) h0

/-- head set a block belongs to -/
def headsOf (s : DocState) (k : Kind) : List Nat :=
  match k with
  | .comp => s.heads
  | .field f => s.fheads f
  | .col => []

def setHeadsOf (s : DocState) (k : Kind) (h : List Nat) : DocState :=
  match k with
  | .comp => { s with heads := h }
  | .field f => { s with fheads := fun x => if x = f then h else s.fheads x }
  | .col => s

/-- `isMerged`: breadth-first walk back from the heads, never below `height` -/
def isMergedAux (bs : Blocks) (target height : Nat) : Nat → List Nat → List Nat → Bool
  | 0, _, _ => false
  | _ + 1, [], _ => false
  | fuel + 1, frontier, seen =>
    if frontier.contains target then true
    else
      let (next, seen') := frontier.foldl (fun (acc : List Nat × List Nat) c =>
        match bs.get? c with
        | none => acc
        | some blk =>
          if blk.height ≤ height then acc
          else blk.parents.foldl (fun (a : List Nat × List Nat) p =>
            if a.2.contains p then a else (a.1 ++ [p], a.2 ++ [p])) acc) ([], seen)
      isMergedAux bs target height fuel next seen'

def isMerged (bs : Blocks) (heads : List Nat) (target height : Nat) : Bool :=
  isMergedAux bs target height (bs.length + 2) heads []

/-- `loadComposites`: depth-first from `c`, each block once, stopping at merged blocks;
    returns (collected in `PushFront` order, visited) -/
def loadComposites (bs : Blocks) (heads : List Nat) : Nat → Nat → List Block × List Nat → List Block × List Nat
  | 0, _, acc => acc
  | fuel + 1, c, (coll, visited) =>
    if visited.contains c then (coll, visited)
    else
      let visited := visited ++ [c]
      match bs.get? c with
      | none => (coll, visited)
      | some blk =>
        if isMerged bs heads c blk.height then (coll, visited)
        else blk.parents.foldl (fun acc p => loadComposites bs heads fuel p acc) (blk :: coll, visited)

/-- stable insertion sort by height (`sort.SliceStable`) -/
def insertByHeight (b : Block) : List Block → List Block
  | [] => [b]
  | x :: xs => if b.height < x.height then b :: x :: xs else x :: insertByHeight b xs

def sortByHeight (l : List Block) : List Block := l.foldl (fun acc b => insertByHeight b acc) []

structure Ctx where
  blocks : Blocks
  known : Nat → Bool

mutual
/-- `processBlock` for document-level blocks (composite / field) -/
def processBlock (cx : Ctx) : Nat → Replica → Block → Replica
  | 0, r, _ => r
  | fuel + 1, r, b =>
    match b.kind with
    | .col =>
      -- collection block: `Collection.Merge` is a no-op; only the collection head set changes
      let r := if isMerged cx.blocks r.colHeads b.id b.height then r
               else { r with colHeads := updateHeads cx.known r.colHeads b }
      b.links.foldl (fun r l =>
        match cx.blocks.get? l with
        | none => r
        | some child =>
          if child.kind == .comp then processLinkedComposite cx fuel r child else processBlock cx fuel r child) r
    | k =>
      let s := r.doc b.doc
      let s := if isMerged cx.blocks (headsOf s k) b.id b.height then s
               else setHeadsOf { s with vals := applyDelta s.vals b } k (updateHeads cx.known (headsOf s k) b)
      let r := r.setDoc b.doc s
      b.links.foldl (fun r l =>
        match cx.blocks.get? l with
        | none => r
        | some child => processBlock cx fuel r child) r

/-- `processLinkedComposite`: a document-level merge started from a collection block's link -/
def processLinkedComposite (cx : Ctx) : Nat → Replica → Block → Replica
  | 0, r, _ => r
  | fuel + 1, r, child =>
    let heads := (r.doc child.doc).heads
    let (coll, _) := loadComposites cx.blocks heads (cx.blocks.length + 1) child.id ([], [])
    if coll.isEmpty then processBlock cx fuel r child
    else (sortByHeight coll).foldl (fun r b => processBlock cx fuel r b) r
end

/-- `executeMerge` for a document-level commit -/
def mergeDoc (cx : Ctx) (r : Replica) (c : Block) : Replica :=
  let heads := (r.doc c.doc).heads
  let (coll, _) := loadComposites cx.blocks heads (cx.blocks.length + 1) c.id ([], [])
  (sortByHeight coll).foldl (fun r b => processBlock cx 4 r b) r

/-- `executeMerge` for a collection-level commit (branchable collections) -/
def mergeCol (cx : Ctx) (r : Replica) (c : Block) : Replica :=
  let (coll, _) := loadComposites cx.blocks r.colHeads (cx.blocks.length + 1) c.id ([], [])
  (sortByHeight coll).foldl (fun r b => processBlock cx 6 r b) r

/-! ### the spec: a document's state is a function of the SET of merged commits -/

/-- downward closure of a composite under parents -/
def closureAux (bs : Blocks) : Nat → List Nat → List Nat → List Nat
  | 0, _, acc => acc
  | _ + 1, [], acc => acc
  | fuel + 1, c :: rest, acc =>
    if acc.contains c then closureAux bs fuel rest acc
    else match bs.get? c with
      | none => closureAux bs fuel rest acc
      | some b => closureAux bs fuel (b.parents ++ rest) (acc ++ [c])

/-- lexicographic maximum of (height, bytes) -/
def lwwMax (a b : Nat × Bytes) : Nat × Bytes :=
  if a.1 < b.1 then b else if a.1 = b.1 then (if Bytes.lt a.2 b.2 then b else a) else a

/-- `canon`: state determined by a set `S` of merged composites of document `d` -/
def canon (bs : Blocks) (d : String) (S : List Nat) : DocState :=
  let comps := S.filterMap (fun c => (bs.get? c).bind (fun b => if b.kind == .comp && b.doc == d then some b else none))
  let fieldIds := (comps.flatMap (·.links)).eraseDups
  let fblocks := fieldIds.filterMap bs.get?
  let deleted := comps.any (fun b => b.delta == .comp true)
  let lww : FMap (Nat × Bytes) := fun f =>
    let vs := fblocks.filterMap (fun b => match b.kind, b.delta with
      | .field g, .lww v => if g == f then some (b.height, v) else none
      | _, _ => none)
    match vs with
    | [] => none
    | v :: rest => some (rest.foldl lwwMax v)
  let ctr : FMap Int := fun f =>
    let vs := fblocks.filterMap (fun b => match b.kind, b.delta with
      | .field g, .ctr i => if g == f then some i else none
      | _, _ => none)
    if vs.isEmpty then none else some (vs.foldl (· + ·) 0)
  let maximal (ids : List Nat) : List Nat :=
    ids.filter (fun c => !(ids.any (fun c' => match bs.get? c' with
      | some b' => b'.parents.contains c
      | none => false)))
  let heads := maximal (comps.map (·.id))
  let fheads : String → List Nat := fun f =>
    maximal ((fblocks.filter (fun b => b.kind == .field f)).map (·.id))
  { vals := { marker := if comps.isEmpty then none else some deleted, lww := lww, ctr := ctr }, heads := heads, fheads := fheads }

end Defra.Crdt
