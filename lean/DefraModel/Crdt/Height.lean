/-
The height rule of `internal/core/block/store.go: AddDelta` and `heads.go`: the head store of one DAG maps each head
to the height recorded for it when it became a head (`heads.Write(cid, height)`); `heads.List` returns the head cids
and the greatest recorded height; `AddDelta` creates a commit that names every listed head as parent with height
`max + 1` (1 when there is no head) and `updateHeads` replaces the heads by it; a commit merged from elsewhere
(`ProcessBlock`) replaces those of its parents that are heads and is recorded with ITS OWN height
(`block.Delta.GetPriority()`).  Core-only.
-/
namespace Defra.Height

/-- the head store of one DAG: (head, recorded height) -/
abbrev Heads := List (Nat × Nat)

/-- the loop of `heads.List`: greatest recorded height, 0 without heads -/
def maxHeight (hs : Heads) : Nat := hs.foldl (fun m h => if h.2 > m then h.2 else m) 0

/-- greatest of a list of heights, 0 for none -/
def maxOf (l : List Nat) : Nat := l.foldl (fun m x => if x > m then x else m) 0

structure Commit where
  id : Nat
  height : Nat
  parents : List Nat
  deriving Repr, DecidableEq

structure St where
  commits : List Commit := []
  heads : Heads := []
  deriving Repr

inductive Op where
  /-- a local write creating the commit `id` -/
  | local (id : Nat)
  /-- a commit made elsewhere is merged -/
  | remote (c : Commit)
  deriving Repr

def step (s : St) : Op → St
  | .local id =>
    let c : Commit := ⟨id, maxHeight s.heads + 1, s.heads.map (·.1)⟩
    { commits := s.commits ++ [c], heads := [(id, c.height)] }
  | .remote c =>
    { commits := s.commits ++ [c],
      heads := s.heads.filter (fun h => !c.parents.contains h.1) ++ [(c.id, c.height)] }

def run (s : St) (ops : List Op) : St := ops.foldl step s

/-- the commits a history creates locally -/
def localIds (ops : List Op) : List Nat := ops.filterMap (fun o => match o with
  | .local id => some id
  | .remote _ => none)

end Defra.Height
