/-!
# Model of concurrent use of one node (C16)

What the property says about a finished run is a statement about its acknowledged history: which calls reported
success, which reported a conflict, what the node reads at the end. The model gives the sequential meaning of the
acknowledged calls (counters add, a created document exists, a register holds a written value) and the discipline
of `internal/datastore/concurrent_txn.go`: calls that share one concurrent transaction take its mutex for each
access, so a run of them is an interleaving of atomic accesses.
-/
namespace Defra.Conc

inductive Outcome where
  | ok | conflict | error
deriving Repr, DecidableEq

/-- an acknowledged call -/
inductive Call where
  | inc (acc : Nat) (delta : Int) (o : Outcome)
  | set (acc : Nat) (value : String) (o : Outcome)
  | create (label : String) (o : Outcome)
  | delete (label : String) (o : Outcome)
  /-- a commit made elsewhere whose merge completed -/
  | mergedInc (acc : Nat) (delta : Int)
  | mergedCreate (label : String)
deriving Repr, DecidableEq

structure State where
  counters : Nat → Int := fun _ => 0
  notes : Nat → Option String := fun _ => none
  items : List String := []

def getCounter (s : State) (a : Nat) : Int := s.counters a

def getNote (s : State) (a : Nat) : Option String := s.notes a

/-- the sequential effect of a call: only calls that reported success (or completed merges) have one -/
def apply (s : State) : Call → State
  | .inc a d .ok => { s with counters := fun x => if x == a then s.counters x + d else s.counters x }
  | .mergedInc a d => { s with counters := fun x => if x == a then s.counters x + d else s.counters x }
  | .set a v .ok => { s with notes := fun x => if x == a then some v else s.notes x }
  | .create l .ok => { s with items := if s.items.contains l then s.items else s.items ++ [l] }
  | .mergedCreate l => { s with items := if s.items.contains l then s.items else s.items ++ [l] }
  | .delete l .ok => { s with items := s.items.filter (· != l) }
  | _ => s

def run (h : List Call) : State := h.foldl apply {}

/-- one call's contribution to the counter of `a` -/
def contribution (a : Nat) : Call → Int
  | .inc a' d .ok => if a == a' then d else 0
  | .mergedInc a' d => if a == a' then d else 0
  | _ => 0

/-- what the acknowledged history says the counter of `a` must read -/
def expectedCounter (h : List Call) (a : Nat) : Int := (h.map (contribution a)).sum

/-- the value one call writes into the register of `a`, if it does -/
def written (a : Nat) : Call → Option String
  | .set a' v .ok => if a == a' then some v else none
  | _ => none

/-- the values acknowledged writes put into the register of `a` -/
def writtenValues (h : List Call) (a : Nat) : List String := h.filterMap (written a)

/-! ## The shared transaction: accesses under one mutex -/

/-- a key-value write -/
structure Write where
  key : String
  value : String
deriving Repr, DecidableEq

def put (m : List (String × String)) (w : Write) : List (String × String) :=
  (w.key, w.value) :: m.filter (·.1 != w.key)

def get (m : List (String × String)) (k : String) : Option String := (m.find? (·.1 == k)).map (·.2)

/-- all ways of interleaving two sequences of atomic accesses -/
def interleavings : List Write → List Write → List (List Write)
  | [], ys => [ys]
  | xs, [] => [xs]
  | x :: xs, y :: ys =>
    (interleavings xs (y :: ys)).map (x :: ·) ++ (interleavings (x :: xs) ys).map (y :: ·)

end Defra.Conc
