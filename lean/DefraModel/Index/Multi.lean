import DefraModel.Query.Model
/-!
# Multi-entry (array) indexes, composite indexes over them, and unique indexes (C07)

Mirrors `internal/db/index.go`:
* `generateKeysAndProcess` — one index entry per combination of the values each indexed field generates
  (`SimpleFieldGenerator`: the value itself; `ArrayFieldGenerator`: every *distinct* element);
* `collectionUniqueIndex` (`validateUniqueKeyValue`, `makeUniqueKeyValueRecord`) — a key without a nil component may
  exist once; a key with a nil component is made distinct by the document identifier and never collides;
and `internal/db/fetcher/indexer_iterators.go` (`memorizingIndexIterator`): when an index can hold several entries of
one document, the documents an index scan yields are de-duplicated by identifier before the complete filter is
re-applied; `internal/connor` `_any` / `_all` / `_none`.
-/
namespace Defra.IndexMulti
open Defra Defra.Query

structure MDoc where
  k : Nat
  name : V
  age : V
  /-- `[Int!]`: absent (nil) or a list of integers -/
  nums : Option (List V)
  /-- `[String!]` -/
  tags : Option (List V)
  deriving Repr, DecidableEq, Inhabited

inductive Cmp where
  | eq | ne | gt | ge | lt | le | inn | nin
  deriving Repr, DecidableEq, Inhabited

/-- one comparison of connor, condition operand(s) first -/
def cmp (c : Cmp) (cond : List V) (data : V) : Bool :=
  let c0 := cond.headD .null
  match c with
  | .eq => vEq c0 data
  | .ne => !vEq c0 data
  | .gt => vGt c0 data
  | .ge => vGe c0 data
  | .lt => vLt c0 data
  | .le => vLe c0 data
  | .inn => cond.any (fun v => vEq v data)
  | .nin => !(cond.any (fun v => vEq v data))

inductive Quant where
  | any | all | none
  deriving Repr, DecidableEq, Inhabited

inductive Atom where
  | sc (f : String) (c : Cmp) (vs : List V)
  | arr (f : String) (q : Quant) (c : Cmp) (vs : List V)
  deriving Repr, Inhabited

def isArrayField (f : String) : Bool := f == "nums" || f == "tags"

def MDoc.scalar (d : MDoc) (f : String) : V :=
  if f == "name" then d.name else if f == "age" then d.age else .null

def MDoc.array (d : MDoc) (f : String) : Option (List V) :=
  if f == "nums" then d.nums else if f == "tags" then d.tags else none

/-- `_any` / `_all` / `_none`: a nil array satisfies none of them; an empty one satisfies `_all` and `_none` -/
def Atom.holds : Atom → MDoc → Bool
  | .sc f c vs, d => cmp c vs (d.scalar f)
  | .arr f q c vs, d =>
    match d.array f with
    | none => false
    | some l =>
      match q with
      | .any => l.any (cmp c vs)
      | .all => l.all (cmp c vs)
      | .none => !(l.any (cmp c vs))

/-- a filter: a disjunction of conjunctions of atoms -/
abbrev Filter := List (List Atom)

def satisfies (f : Filter) (d : MDoc) : Bool := f.any (fun conj => conj.all (·.holds d))

/-- the answer without any index: every matching document once -/
def eval (f : Filter) (docs : List MDoc) : List Nat := (docs.filter (satisfies f)).map (·.k)

/-! ### index entries -/

def dedupV : List V → List V
  | [] => []
  | x :: xs => if (dedupV xs).contains x then dedupV xs else x :: dedupV xs

/-- the values one field contributes to the keys of a document -/
def fieldVals (d : MDoc) (f : String) : List V :=
  if isArrayField f then
    match d.array f with
    | none => [.null]
    | some l => if l.isEmpty then [.null] else dedupV l   -- a nil or empty array is indexed under nil (fix e25659e)
  else [d.scalar f]

/-- all keys of a document under the indexed fields (cartesian product) -/
def keysOf (d : MDoc) : List String → List (List V)
  | [] => [[]]
  | f :: fs => (fieldVals d f).flatMap (fun v => (keysOf d fs).map (fun rest => v :: rest))

def entries (fields : List String) (docs : List MDoc) : List (List V × Nat) :=
  docs.flatMap (fun d => (keysOf d fields).map (fun key => (key, d.k)))

/-- `memorizingIndexIterator`: a document is yielded the first time one of its entries is met -/
def dedupSeen {α : Type} [DecidableEq α] : List α → List α → List α
  | _, [] => []
  | seen, x :: xs => if x ∈ seen then dedupSeen seen xs else x :: dedupSeen (x :: seen) xs

/-! ### unique indexes -/

def nonNilKeys (d : MDoc) (fs : List String) : List (List V) :=
  (keysOf d fs).filter (fun key => !key.contains .null)

/-- would document `d` collide with another live document under the unique index on `fs`? -/
def conflicts (fs : List String) (d : MDoc) (others : List MDoc) : Bool :=
  others.any (fun o => o.k != d.k && (nonNilKeys d fs).any (fun key => (nonNilKeys o fs).contains key))

structure St where
  docs : List MDoc := []
  /-- unique indexes (their fields) -/
  uniq : List (List String) := []
  deriving Repr, Inhabited

inductive Op where
  | create (d : MDoc)
  | update (d : MDoc)          -- the document with identifier `d.k` gets the contents `d`
  | delete (k : Nat)
  | addUnique (fs : List String)

def rejectedBy (s : St) (d : MDoc) : Bool := s.uniq.any (fun fs => conflicts fs d s.docs)

/-- one local write; `false` = rejected, state unchanged -/
def step (s : St) : Op → St × Bool
  | .create d =>
    if s.docs.any (·.k == d.k) then (s, false)
    else if rejectedBy s d then (s, false)
    else ({ s with docs := s.docs ++ [d] }, true)
  | .update d =>
    if !s.docs.any (·.k == d.k) then (s, false)
    else if rejectedBy s d then (s, false)
    else ({ s with docs := s.docs.map (fun o => if o.k == d.k then d else o) }, true)
  | .delete k => ({ s with docs := s.docs.filter (fun o => o.k != k) }, true)
  | .addUnique fs =>
    -- creating a unique index on existing data fails when two documents already collide
    if s.docs.any (fun d => conflicts fs d s.docs) then (s, false)
    else ({ s with uniq := s.uniq ++ [fs] }, true)

end Defra.IndexMulti

namespace Defra.IndexMulti
open Defra Defra.Query

/-- the index path of a read: the entries of the index that pass the candidate test (the key range / matchers the
    planner derives from the filter), de-duplicated by document, the documents looked up, the complete filter
    re-applied -/
def indexFetch (fields : List String) (cand : List V → Bool) (f : Filter) (docs : List MDoc) : List Nat :=
  let ids := dedupSeen [] (((entries fields docs).filter (fun e => cand e.1)).map (·.2))
  ((ids.filterMap (fun k => docs.find? (·.k == k))).filter (satisfies f)).map (·.k)

end Defra.IndexMulti
