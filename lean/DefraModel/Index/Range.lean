/-
Mirror of the index key layout and of `indexFetcher.createRangeBoundaries`
(/repo/internal/db/fetcher/indexer_iterators.go) for a condition on the first indexed field:
an entry key is  base ++ '/' ++ enc(value) ++ (further components, docID);  the iterator scans [start, end).
Core-only.
-/
import DefraModel.Encoding.FieldValue
namespace Defra.Index
open Defra Defra.Enc

/-- `newIndexDataStoreKey().Bytes()`: `/col/idx` -/
def baseKey (col idx : Nat) : Bytes := (0x2f :: uvarintAsc col) ++ (0x2f :: uvarintAsc idx)

/-- `createKeyWithValue(baseKey, v).Bytes()` -/
def valueKey (col idx : Nat) (desc : Bool) (v : Val) : Bytes := baseKey col idx ++ (0x2f :: fieldValue desc v)

/-- the key of an index entry whose first component is `x` -/
def entryKey (col idx : Nat) (desc : Bool) (x : Val) (rest : Bytes) : Bytes := valueKey col idx desc x ++ rest

inductive RangeOp where
  | gt | ge | lt | le
  deriving Repr, DecidableEq

/-- `createRangeBoundaries`: (startKey, endKey), all eight operator × direction cases -/
def rangeBounds (col idx : Nat) (desc : Bool) (op : RangeOp) (v : Val) : Bytes × Bytes :=
  let base := baseKey col idx
  let vk := valueKey col idx desc v
  if desc then
    match op with
    | .gt => (base, vk)
    | .ge => (base, prefixEnd vk)
    | .lt => (prefixEnd vk, prefixEnd base)
    | .le => (vk, prefixEnd base)
  else
    match op with
    | .gt => (prefixEnd vk, prefixEnd base)
    | .ge => (vk, prefixEnd base)
    | .lt => (base, vk)
    | .le => (base, prefixEnd vk)

/-- membership in the scanned interval `[start, end)` -/
def inRange (k : Bytes) (b : Bytes × Bytes) : Bool := !Bytes.lt k b.1 && Bytes.lt k b.2

end Defra.Index
