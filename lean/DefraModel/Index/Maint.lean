/-!
# Model of secondary-index maintenance (C07)

Mirrors `internal/db/collection_index.go` (`indexNewDoc`, `updateDocIndex`, `deleteIndexedDoc`) and
`internal/db/index.go` (`Save`, `Update` = delete the entry of the old values and save the entry of the new ones,
`Delete`), and `CreateIndex` on a collection that already holds documents (every live document is indexed).
An entry is the pair (values of the indexed fields, document identifier); its byte form is `Enc.indexKey`.
-/
namespace Defra.IndexMaint

structure St (α κ : Type) where
  docs : List (Nat × α) := []
  entries : List (κ × Nat) := []

inductive Op (α : Type) where
  | create (id : Nat) (a : α)
  | update (id : Nat) (a : α)
  | delete (id : Nat)

variable {α κ : Type} [DecidableEq κ]

/-- one mutation with its index maintenance -/
def step (key : α → κ) (s : St α κ) : Op α → St α κ
  | .create id a =>
    if s.docs.any (·.1 == id) then s
    else ⟨s.docs ++ [(id, a)], s.entries ++ [(key a, id)]⟩
  | .update id a =>
    match s.docs.find? (·.1 == id) with
    | none => s
    | some old =>
      ⟨s.docs.map (fun d => if d.1 == id then (id, a) else d), (s.entries.erase (key old.2, id)) ++ [(key a, id)]⟩
  | .delete id =>
    match s.docs.find? (·.1 == id) with
    | none => s
    | some old => ⟨s.docs.filter (fun d => !(d.1 == id)), s.entries.erase (key old.2, id)⟩

/-- creating the index on existing documents -/
def build (key : α → κ) (docs : List (Nat × α)) : St α κ := ⟨docs, docs.map (fun d => (key d.2, d.1))⟩

/-- the entries the documents call for -/
def expected (key : α → κ) (docs : List (Nat × α)) : List (κ × Nat) := docs.map (fun d => (key d.2, d.1))

/-- identifiers are distinct and the index holds exactly one entry per live document, with its current values -/
def Inv (key : α → κ) (s : St α κ) : Prop :=
  (s.docs.map (·.1)).Nodup ∧ s.entries.Perm (expected key s.docs)

end Defra.IndexMaint
