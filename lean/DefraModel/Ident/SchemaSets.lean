/-
Specification of the grouping of type definitions into schema sets (/repo/internal/db/schema_id.go getSchemaSets,
mapSchemaSetIDs, circlesBack): two types of one AddSchema call belong to the same set exactly when each refers to the
other through a chain of relations between types of that call.  A set of one type gets the hash of its definition as
identifier, a set of several gets the hash of the definitions sorted by name and every member its index in that order;
definitions name the types they refer to, so the content of a definition does not depend on the grouping.
`drv ident` computes the sets with `sameSetB` for every generated type graph and the harness compares them with the
sets visible in the identifiers the implementation assigns.  Core-only.
-/
namespace Defra.SchemaSets

/-- a type definition: its name and the names its relation fields refer to -/
structure TD where
  name : Nat
  refs : List Nat
  deriving Repr, DecidableEq

abbrev G := List TD

def isNode (g : G) (a : Nat) : Bool := g.any (fun t => t.name == a)

/-- the types of the call that `a` refers to (relations to types outside the call are dropped by the pruning loop) -/
def succs (g : G) (a : Nat) : List Nat :=
  ((g.filter (fun t => t.name == a)).flatMap (·.refs)).filter (isNode g)

/-- a chain of one or more relations -/
inductive Path (g : G) : Nat → Nat → Prop
  | step {a b : Nat} : b ∈ succs g a → Path g a b
  | trans {a b c : Nat} : b ∈ succs g a → Path g b c → Path g a c

/-- the two types belong to the same schema set -/
def SameSet (g : G) (a b : Nat) : Prop := a = b ∨ (Path g a b ∧ Path g b a)

/-! executable form -/

def expand (g : G) (s : List Nat) : List Nat :=
  s ++ ((s.flatMap (succs g)).filter (fun x => !s.contains x)).eraseDups

def closure (g : G) : Nat → List Nat → List Nat
  | 0, s => s
  | n + 1, s => closure g n (expand g s)

/-- everything reachable from `a` by one or more relations (after `g.length` rounds nothing new can appear; `closedB`
    checks that, and the theorems take it as hypothesis) -/
def reachFrom (g : G) (a : Nat) : List Nat := closure g g.length (succs g a)

def closedB (g : G) (s : List Nat) : Bool := s.all (fun x => (succs g x).all (fun y => s.contains y))

def sameSetB (g : G) (a b : Nat) : Bool :=
  a == b || ((reachFrom g a).contains b && (reachFrom g b).contains a)

/-- every `reachFrom` of the graph is closed (the hypothesis of `sameSetB_iff`, evaluated by the driver) -/
def allClosedB (g : G) : Bool := g.all (fun t => closedB g (reachFrom g t.name))

/-- the members of the set of `a`, in the order of `g` -/
def setOf (g : G) (a : Nat) : List Nat := (g.map (·.name)).filter (sameSetB g a)

end Defra.SchemaSets
