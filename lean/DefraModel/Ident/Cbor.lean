/-
Canonical CBOR of a document's non-nil field map: mirror of `Document.Bytes()` (/repo/client/document.go)
with `cbor.CanonicalEncOptions()` (fxamacker/cbor): map keys sorted length-first then bytewise, integers in
their shortest form, floats in the shortest IEEE width that represents them (here: multiples of 1/8 of moderate
size, all of which fit binary16), nil-valued fields omitted.  Core-only.
-/
import DefraModel.Bytes
namespace Defra.Ident

inductive FV where
  | null
  | str (s : Bytes)
  | int (i : Int)
  | flt (n8 : Int)      -- the float n8 / 8
  /-- a float that no narrower IEEE format represents exactly, given by its binary64 bits -/
  | f64 (bits : Nat)
  | bool (b : Bool)
  | arrStr (l : List Bytes)   -- [String!]
  | arrInt (l : List Int)     -- [Int!]
  | arrBool (l : List Bool)   -- [Boolean!]
  /-- an array whose elements may be nil (`[Int]`, `[String]`, ...): `Document.Bytes` serialises every element — a
      value of an option type without a CBOR form — as an empty map, so only the LENGTH of the array reaches the bytes -/
  | optArr (n : Nat)
  deriving DecidableEq, Repr, Inhabited

/-- big-endian `w` bytes -/
def beN : Nat → Nat → Bytes
  | 0, _ => []
  | w + 1, x => (x / 256 ^ w) % 256 :: beN w x

/-- CBOR head: major type and unsigned argument in shortest form -/
def head (major : Nat) (n : Nat) : Bytes :=
  let m := major * 32
  if n < 24 then [m + n]
  else if n < 256 then [m + 24, n]
  else if n < 65536 then (m + 25) :: beN 2 n
  else if n < 4294967296 then (m + 26) :: beN 4 n
  else (m + 27) :: beN 8 n

def log2floor : Nat → Nat → Nat
  | 0, _ => 0
  | fuel + 1, n => if n < 2 then 0 else 1 + log2floor fuel (n / 2)

/-- binary16 bits of `n8/8` for `0 < |n8| < 2^11 * 8` with at most 11 significant bits -/
def half (n8 : Int) : Nat :=
  let neg := n8 < 0
  let m := n8.natAbs
  if m = 0 then 0
  else
    let e := log2floor 64 m                      -- m = 1.xxx * 2^e
    let frac := (m * 2 ^ 10 / 2 ^ e) % 1024      -- 10 fraction bits
    let expBits := e + 15 - 3                    -- value = m * 2^-3
    (if neg then 32768 else 0) + expBits * 1024 + frac

def encVal : FV → Bytes
  | .null => [0xf6]
  | .str s => head 3 s.length ++ s
  | .int i => if i ≥ 0 then head 0 i.toNat else head 1 (-1 - i).toNat
  | .flt n => 0xf9 :: beN 2 (half n)
  | .f64 bits => 0xfb :: beN 8 bits
  | .bool b => [if b then 0xf5 else 0xf4]
  | .arrStr l => head 4 l.length ++ l.flatMap (fun s => head 3 s.length ++ s)
  | .arrInt l => head 4 l.length ++ l.flatMap (fun i => if i ≥ 0 then head 0 i.toNat else head 1 (-1 - i).toNat)
  | .arrBool l => head 4 l.length ++ l.map (fun b => if b then 0xf5 else 0xf4)
  | .optArr n => head 4 n ++ List.replicate n 0xa0

def encKey (k : Bytes) : Bytes := head 3 k.length ++ k

/-- canonical key order: shorter encoded key first, then bytewise -/
def keyLe (a b : Bytes × FV) : Bool :=
  let ka := encKey a.1
  let kb := encKey b.1
  ka.length < kb.length || (ka.length == kb.length && !Bytes.lt kb ka)

/-- `Document.Bytes()`: non-nil fields, sorted canonically -/
def docBytes (fields : List (Bytes × FV)) : Bytes :=
  let live := fields.filter (fun p => p.2 != .null)
  let sorted := live.mergeSort keyLe
  head 5 sorted.length ++ sorted.flatMap (fun p => encKey p.1 ++ encVal p.2)

end Defra.Ident
