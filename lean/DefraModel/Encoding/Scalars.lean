/-
Mirror of /repo/internal/encoding/{float,bytes,string,time,bool,null}.go.
Floats are bit patterns (`Nat`, `< 2^32` / `< 2^64`); IEEE *order* on non-NaN
patterns is defined here (`fkey`) and validated against Go's `<` by the
correspondence check.  Core-only.
-/
import DefraModel.Encoding.Int
namespace Defra.Enc

/-! ### floats on bit patterns; `e`/`m` = exponent/mantissa widths, total width `1+e+m` -/

structure FFmt where
  ebits : Nat
  mbits : Nat
  nan : Nat
  neg : Nat
  zero : Nat
  pos : Nat
  nanDesc : Nat
  canonNaN : Nat

def f64 : FFmt := ⟨11, 52, float64NaN, float64Neg, float64Zero, float64Pos, float64NaNDesc, 0x7FF8000000000001⟩
def f32 : FFmt := ⟨8, 23, float32NaN, float32Neg, float32Zero, float32Pos, float32NaNDesc, 0x7FC00001⟩

def FFmt.width (f : FFmt) : Nat := 1 + f.ebits + f.mbits
def FFmt.signBit (f : FFmt) : Nat := 2 ^ (f.ebits + f.mbits)
def FFmt.bytes (f : FFmt) : Nat := f.width / 8

/-- magnitude bits (everything but the sign) -/
def FFmt.mag (f : FFmt) (u : Nat) : Nat := u % f.signBit
def FFmt.isNeg (f : FFmt) (u : Nat) : Bool := u ≥ f.signBit
/-- exponent all ones and mantissa non-zero -/
def FFmt.isNaN (f : FFmt) (u : Nat) : Bool := f.mag u > (2 ^ f.ebits - 1) * 2 ^ f.mbits
/-- `f == 0` (either zero) -/
def FFmt.isZero (f : FFmt) (u : Nat) : Bool := f.mag u = 0
/-- unary minus -/
def FFmt.negate (f : FFmt) (u : Nat) : Nat := if f.isNeg u then u - f.signBit else u + f.signBit

/-- IEEE order on non-NaN patterns: sign-magnitude integer; `-0` and `+0` both `0` -/
def FFmt.key (f : FFmt) (u : Nat) : Int := if f.isNeg u then -(f.mag u : Int) else (f.mag u : Int)
def FFmt.flt (f : FFmt) (a b : Nat) : Bool := f.key a < f.key b
def FFmt.feq (f : FFmt) (a b : Nat) : Bool := f.key a = f.key b

/-- `EncodeFloat{32,64}Ascending` -/
def floatAsc (f : FFmt) (u : Nat) : Bytes :=
  if f.isNaN u then [f.nan]
  else if f.isZero u then [f.zero]
  else if f.isNeg u then f.neg :: be f.bytes (2 ^ f.width - 1 - u)
  else f.pos :: be f.bytes u

/-- `EncodeFloat{32,64}Descending` -/
def floatDesc (f : FFmt) (u : Nat) : Bytes :=
  if f.isNaN u then [f.nanDesc] else floatAsc f (f.negate u)

/-- `DecodeFloat{32,64}Ascending` -/
def decFloatAsc (f : FFmt) : Bytes → Option (Nat × Bytes)
  | [] => none
  | t :: b =>
    if t = f.nan ∨ t = f.nanDesc then some (f.canonNaN, b)
    else if t = f.zero then some (0, b)
    else if t = f.neg then
      if b.length < f.bytes then none
      else some (2 ^ f.width - 1 - beVal (b.take f.bytes), b.drop f.bytes)
    else if t = f.pos then
      if b.length < f.bytes then none
      else some (beVal (b.take f.bytes), b.drop f.bytes)
    else none

/-- `DecodeFloat{32,64}Descending` (`-r`; NaN keeps being NaN, sign flipped) -/
def decFloatDesc (f : FFmt) (b : Bytes) : Option (Nat × Bytes) :=
  match decFloatAsc f b with
  | none => none
  | some (u, r) => some (f.negate u, r)

/-! ### bytes / strings -/

/-- `encodeBytesAscendingWithoutTerminatorOrPrefix`: `00 ↦ 00 ff` -/
def escBody : Bytes → Bytes
  | [] => []
  | x :: xs => if x = 0 then 0 :: 255 :: escBody xs else x :: escBody xs

/-- `EncodeBytesAscending` / `EncodeStringAscending` -/
def bytesAsc (d : Bytes) : Bytes := bytesMarker :: (escBody d ++ [0, 1])

/-- `EncodeBytesDescending` -/
def bytesDesc (d : Bytes) : Bytes := bytesDescMarker :: Bytes.compl (escBody d ++ [0, 1])

/-- body of `decodeBytesInternal` after the marker, parameterised by the escape bytes;
    returns (decoded with `escapedFF` substituted, rest) -/
def decBody (esc term e00 eFF : Nat) : Bytes → Option (Bytes × Bytes)
  | [] => none
  | [x] => if x = esc then none else none
  | x :: y :: rest =>
    if x = esc then
      if y = term then some ([], rest)
      else if y = e00 then
        match decBody esc term e00 eFF rest with
        | none => none
        | some (r, rem) => some (eFF :: r, rem)
      else none
    else
      match decBody esc term e00 eFF (y :: rest) with
      | none => none
      | some (r, rem) => some (x :: r, rem)

/-- `DecodeBytesAscending` -/
def decBytesAsc : Bytes → Option (Bytes × Bytes)
  | [] => none
  | m :: b => if m = bytesMarker then decBody 0 1 255 0 b else none

/-- `DecodeBytesDescending` (result is ones-complemented after decoding) -/
def decBytesDesc : Bytes → Option (Bytes × Bytes)
  | [] => none
  | m :: b =>
    if m = bytesDescMarker then
      match decBody 255 254 0 255 b with
      | none => none
      | some (r, rem) => some (Bytes.compl r, rem)
    else none

/-! ### time: (unix seconds, nanoseconds) -/

def timeAsc (unix nanos : Int) : Bytes := timeMarker :: (varintAsc unix ++ varintAsc nanos)
def timeDesc (unix nanos : Int) : Bytes := timeMarker :: (varintAsc (inot unix) ++ varintAsc (inot nanos))

/-- `time.Unix(sec, nsec)` normalises `nsec` into `[0, 1e9)` (floor division) -/
def normTime (s n : Int) : Int × Int := (s + n / 1000000000, n % 1000000000)

def decTimeAsc : Bytes → Option ((Int × Int) × Bytes)
  | [] => none
  | m :: b =>
    if m = timeMarker then
      match decVarintAsc b with
      | none => none
      | some (s, r) =>
        match decVarintAsc r with
        | none => none
        | some (n, r') => some (normTime s n, r')
    else none

def decTimeDesc : Bytes → Option ((Int × Int) × Bytes)
  | [] => none
  | m :: b =>
    if m = timeMarker then
      match decVarintAsc b with
      | none => none
      | some (s, r) =>
        match decVarintAsc r with
        | none => none
        | some (n, r') => some (normTime (inot s) (inot n), r')
    else none

/-! ### bool, null -/

def boolAsc (v : Bool) : Bytes := if v then [trueMarker] else [falseMarker]
def boolDesc (v : Bool) : Bytes := boolAsc (!v)
def nullAsc : Bytes := [encodedNull]
def nullDesc : Bytes := [encodedNullDesc]

end Defra.Enc
