/-
Mirror of /repo/internal/encoding/{field_value,json}.go and
/repo/internal/keys/datastore_index.go (`EncodeIndexDataStoreKey`,
`bytesPrefixEnd`).  Core-only.
-/
import DefraModel.Encoding.Scalars
namespace Defra.Enc

inductive JPart where
  | prop (name : Bytes)
  | index
  deriving Repr, DecidableEq

inductive JScalar where
  | str (s : Bytes)
  | num (bits : Nat)
  | bool (b : Bool)
  | null
  deriving Repr, DecidableEq

/-- a normal value of an indexable kind -/
inductive Val where
  | null
  | bool (b : Bool)
  | int (i : Int)
  | f32 (bits : Nat)
  | f64 (bits : Nat)
  | str (s : Bytes)
  | time (unix nanos : Int)
  | json (path : List JPart) (v : JScalar)
  deriving Repr, DecidableEq

/-- `encodeJSONPath` -/
def jsonPath (p : List JPart) : Bytes :=
  jsonMarker :: (p.flatMap (fun part => match part with
    | .prop n => bytesAsc n
    | .index => uvarintAsc 0)) ++ [1]

def jsonScalar (desc : Bool) : JScalar → Bytes
  | .str s => if desc then bytesDesc s else bytesAsc s
  | .num u => if desc then floatDesc f64 u else floatAsc f64 u
  | .bool b => if desc then boolDesc b else boolAsc b
  | .null => if desc then nullDesc else nullAsc

/-- `EncodeJSONAscending` / `EncodeJSONDescending` (`'/'` = 0x2f) -/
def jsonEnc (desc : Bool) (p : List JPart) (v : JScalar) : Bytes :=
  jsonPath p ++ [0x2f] ++ jsonScalar desc v

/-- `EncodeFieldValue` -/
def fieldValue (desc : Bool) : Val → Bytes
  | .null => if desc then nullDesc else nullAsc
  | .bool b => if desc then boolDesc b else boolAsc b
  | .int i => if desc then varintDesc i else varintAsc i
  | .f32 u => if desc then floatDesc f32 u else floatAsc f32 u
  | .f64 u => if desc then floatDesc f64 u else floatAsc f64 u
  | .str s => if desc then bytesDesc s else bytesAsc s
  | .time s n => if desc then timeDesc s n else timeAsc s n
  | .json p v => jsonEnc desc p v

/-- `EncodeIndexDataStoreKey` -/
def indexKey (col idx : Nat) (fields : List (Val × Bool)) : Bytes :=
  if col = 0 then []
  else
    let b := 0x2f :: uvarintAsc col
    if idx = 0 then b
    else b ++ 0x2f :: uvarintAsc idx ++ fields.flatMap (fun (v, d) => 0x2f :: fieldValue d v)

/-- `bytesPrefixEnd`, on the reversed string: increment with carry, dropping the bytes that wrapped -/
def prefixEndRev : Bytes → Option Bytes
  | [] => none
  | x :: xs => if x = 255 then prefixEndRev xs else some ((x + 1) :: xs)

/-- `bytesPrefixEnd` -/
def prefixEnd (b : Bytes) : Bytes :=
  match prefixEndRev b.reverse with
  | none => b
  | some r => r.reverse

/-- `DecodeFieldValue`, without the kind-specific nil (`null` for `Null`);
    strings decode to `str`; JSON is not decoded by the model -/
def decFieldValue (desc : Bool) (b : Bytes) : Option (Val × Bytes) :=
  match b with
  | [] => none
  | m :: rest =>
    if m = encodedNull ∨ m = encodedNullDesc then some (.null, rest)
    else if m = bytesMarker ∨ m = bytesDescMarker then
      (if desc then decBytesDesc b else decBytesAsc b).map (fun (v, r) => (.str v, r))
    else if m ≥ IntMin ∧ m ≤ IntMax then
      (if desc then decVarintDesc b else decVarintAsc b).map (fun (v, r) => (.int v, r))
    else if m ≥ float32NaN ∧ m ≤ float32NaNDesc then
      (if desc then decFloatDesc f32 b else decFloatAsc f32 b).map (fun (v, r) => (.f32 v, r))
    else if m ≥ float64NaN ∧ m ≤ float64NaNDesc then
      (if desc then decFloatDesc f64 b else decFloatAsc f64 b).map (fun (v, r) => (.f64 v, r))
    else if m = timeMarker then
      (if desc then decTimeDesc b else decTimeAsc b).map (fun ((s, n), r) => (.time s n, r))
    else if m = falseMarker ∨ m = trueMarker then
      some (.bool (if desc then !(m == trueMarker) else m == trueMarker), rest)
    else none

end Defra.Enc
