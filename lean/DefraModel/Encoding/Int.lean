/-
Mirror of /repo/internal/encoding/int.go (varint / uvarint, ascending and
descending, with decoders).  Values are unbounded `Nat`/`Int`; the Go types'
ranges appear as explicit hypotheses of the theorems (`v < 2^64`,
`-2^63 ≤ v < 2^63`).  Core-only.
-/
import DefraModel.Bytes
namespace Defra.Enc

/-- marker constants of encoding.go (tied to the source by Generated/EncodingConsts.lean) -/
@[simp] abbrev encodedNull : Nat := 0
@[simp] abbrev float64NaN : Nat := 1
@[simp] abbrev float64Neg : Nat := 2
@[simp] abbrev float64Zero : Nat := 3
@[simp] abbrev float64Pos : Nat := 4
@[simp] abbrev float64NaNDesc : Nat := 5
@[simp] abbrev bytesMarker : Nat := 6
@[simp] abbrev bytesDescMarker : Nat := 7
@[simp] abbrev timeMarker : Nat := 8
@[simp] abbrev falseMarker : Nat := 9
@[simp] abbrev trueMarker : Nat := 10
@[simp] abbrev jsonMarker : Nat := 11
@[simp] abbrev float32NaN : Nat := 12
@[simp] abbrev float32Neg : Nat := 13
@[simp] abbrev float32Zero : Nat := 14
@[simp] abbrev float32Pos : Nat := 15
@[simp] abbrev float32NaNDesc : Nat := 16
@[simp] abbrev IntMin : Nat := 128
@[simp] abbrev intMaxWidth : Nat := 8
@[simp] abbrev intZero : Nat := 136
@[simp] abbrev intSmall : Nat := 109
@[simp] abbrev IntMax : Nat := 253
@[simp] abbrev encodedNullDesc : Nat := 255

/-- unfold every marker constant (they are atoms to `omega` otherwise) -/
macro "enc_consts" : tactic => `(tactic| try simp only [encodedNull, float64NaN, float64Neg, float64Zero, float64Pos,
  float64NaNDesc, bytesMarker, bytesDescMarker, timeMarker, falseMarker, trueMarker, jsonMarker, float32NaN,
  float32Neg, float32Zero, float32Pos, float32NaNDesc, IntMin, intMaxWidth, intZero, intSmall, IntMax,
  encodedNullDesc] at *)

/-- the `w` low-order bytes of `x`, most significant first
    (`byte(v>>8(w-1)), …, byte(v)`) -/
def be : Nat → Nat → Bytes
  | 0, _ => []
  | w + 1, x => (x / 256 ^ w) % 256 :: be w x

/-- big-endian value of a byte string (`v = (v << 8) | t`) -/
def beVal (b : Bytes) : Nat := b.foldl (fun v t => v * 256 + t) 0

/-- number of bytes `EncodeUvarintAscending` uses for `v > intSmall` (the `switch` thresholds) -/
def uwidth (v : Nat) : Nat :=
  if v ≤ 0xff then 1
  else if v ≤ 0xffff then 2
  else if v ≤ 0xffffff then 3
  else if v ≤ 0xffffffff then 4
  else if v ≤ 0xffffffffff then 5
  else if v ≤ 0xffffffffffff then 6
  else if v ≤ 0xffffffffffffff then 7
  else 8

/-- `EncodeUvarintAscending` -/
def uvarintAsc (v : Nat) : Bytes :=
  if v ≤ intSmall then [intZero + v]
  else (IntMax - 8 + uwidth v) :: be (uwidth v) v

/-- `EncodeUvarintDescending` (`v = ^v` on 64 bits, low `w` bytes) -/
def uvarintDesc (v : Nat) : Bytes :=
  if v = 0 then [IntMin + 8]
  else (IntMin + 8 - uwidth v) :: be (uwidth v) (2 ^ 64 - 1 - v)

/-- number of bytes `EncodeVarintAscending` uses for a negative `v` (thresholds `v >= -0xff…`) -/
def nwidth (v : Int) : Nat :=
  if v ≥ -0xff then 1
  else if v ≥ -0xffff then 2
  else if v ≥ -0xffffff then 3
  else if v ≥ -0xffffffff then 4
  else if v ≥ -0xffffffffff then 5
  else if v ≥ -0xffffffffffff then 6
  else if v ≥ -0xffffffffffffff then 7
  else 8

/-- `EncodeVarintAscending`; `byte(v>>k)` of a negative `int64` are the bytes of `v + 2^64` -/
def varintAsc (v : Int) : Bytes :=
  if v < 0 then (IntMin + 8 - nwidth v) :: be (nwidth v) (v + 2 ^ 64).toNat
  else uvarintAsc v.toNat

/-- `^v` on `int64` -/
def inot (v : Int) : Int := -v - 1

/-- `EncodeVarintDescending` -/
def varintDesc (v : Int) : Bytes := varintAsc (inot v)

/-- two's-complement wrap-around of `int64` arithmetic -/
def wrap64 (x : Int) : Int := (x + 2 ^ 63) % 2 ^ 64 - 2 ^ 63

/-- `DecodeUvarintAscending`: value and remaining bytes -/
def decUvarintAsc : Bytes → Option (Nat × Bytes)
  | [] => none
  | t :: b =>
    let length : Int := (t : Int) - intZero
    if length ≤ intSmall then
      -- Go: `uint64(length)`; a negative length wraps (never produced by the encoder)
      if length < 0 then some ((length + 2 ^ 64).toNat, b) else some (length.toNat, b)
    else
      let l := (length - intSmall).toNat
      if l > 8 then none
      else if b.length < l then none
      else some (beVal (b.take l), b.drop l)

/-- `DecodeUvarintDescending` -/
def decUvarintDesc : Bytes → Option (Nat × Bytes)
  | [] => none
  | t :: b =>
    let length : Int := (intZero : Int) - t
    if length < 0 ∨ length > 8 then none
    else
      let l := length.toNat
      if b.length < l then none
      else some (beVal ((b.take l).map (fun x => 255 - x)), b.drop l)

/-- `DecodeVarintAscending` -/
def decVarintAsc : Bytes → Option (Int × Bytes)
  | [] => none
  | t :: b =>
    let length : Int := (t : Int) - intZero
    if length < 0 then
      let l := (-length).toNat
      if b.length < l then none
      else
        -- v = fold of ^t, then ^v — in `int64`: eight payload bytes with a clear top bit (never produced by the
        -- encoder) wrap around
        let m := beVal ((b.take l).map (fun x => 255 - x))
        some (wrap64 (inot (m : Int)), b.drop l)
    else
      match decUvarintAsc (t :: b) with
      | none => none
      | some (v, r) => if v > 2 ^ 63 - 1 then none else some ((v : Int), r)

/-- `DecodeVarintDescending` -/
def decVarintDesc (b : Bytes) : Option (Int × Bytes) :=
  match decVarintAsc b with
  | none => none
  | some (v, r) => some (inot v, r)

end Defra.Enc
