/-!
# Model of a node's persisted state and its in-memory caches (C14)

Mirrors what `internal/db/db.go` `initialize`/`loadSchema`, `internal/db/description/*`, `internal/db/sequence`,
`internal/db/collection_index.go` and `net/peer.go` (`loadAndPublishP2PCollections`, `loadAndPublishReplicators`)
keep twice: once in the store and once in memory (collection descriptions and their indexes, identifier sequences,
the P2P collection set, the replicator table). Every operation reads the in-memory copy and writes through to the
store; a restart throws the in-memory copy away and rebuilds it from the store.
-/
namespace Defra.Restart

structure Index where
  name : String
  id : Nat
  field : String
deriving Repr, DecidableEq

structure Col where
  name : String
  shortId : Nat
  /-- field names with their short identifiers -/
  fields : List (String × Nat)
  nextField : Nat
  indexes : List Index
  nextIndex : Nat
deriving Repr, DecidableEq

/-- everything the store holds -/
structure Persisted where
  cols : List Col := []
  nextCol : Nat := 1
  p2p : List String := []
  /-- the replicator table: target peer ↦ collections replicated to it -/
  reps : List (String × List String) := []
deriving Repr, DecidableEq

/-- the in-memory copies -/
structure Cache where
  cols : List Col := []
  nextCol : Nat := 1
  p2p : List String := []
  /-- the routing table of the network server -/
  reps : List (String × List String) := []
deriving Repr, DecidableEq

structure Node where
  store : Persisted := {}
  mem : Cache := {}
deriving Repr, DecidableEq

/-- what start-up rebuilds from the store -/
def load (p : Persisted) : Cache := ⟨p.cols, p.nextCol, p.p2p, p.reps⟩

def restart (n : Node) : Node := { n with mem := load n.store }

/-- write-through of the in-memory state -/
def persist (c : Cache) : Persisted := ⟨c.cols, c.nextCol, c.p2p, c.reps⟩

def insertSorted (x : String) : List String → List String
  | [] => [x]
  | y :: t => if x ≤ y then x :: y :: t else y :: insertSorted x t

def sortNames (l : List String) : List String := l.foldr insertSorted []

/-- the generated index name: the first of `base`, `base_2`, `base_3`, ... that is free -/
def freeName (base : String) (taken : List String) (fuel : Nat) (k : Nat := 1) : String :=
  let cand := if k == 1 then base else base ++ "_" ++ toString k
  match fuel with
  | 0 => cand
  | fuel + 1 => if taken.contains cand then freeName base taken fuel (k + 1) else cand

inductive Op where
  | addCol (name : String) (fields : List String) (indexed : List String)
  | createIndex (col : String) (field : String)
  | dropIndex (col : String) (k : Nat)
  | addField (col : String) (field : String)
  | p2pAdd (col : String)
  | p2pRemove (col : String)
  | repSet (target col : String)
  | repDel (target col : String)
  | restart
deriving Repr

def mkCol (name : String) (shortId : Nat) (fields indexed : List String) : Col :=
  let fs := sortNames fields
  let withIds := fs.zipIdx.map (fun (f, i) => (f, i + 2))
  let idx := indexed.zipIdx.map (fun (f, i) => (⟨name ++ "_" ++ f ++ "_ASC", i + 1, f⟩ : Index))
  ⟨name, shortId, withIds, fs.length + 2, idx, indexed.length + 1⟩

def updCol (cols : List Col) (name : String) (f : Col → Col) : List Col :=
  cols.map (fun c => if c.name == name then f c else c)

def addIndexF (col field : String) (c : Col) : Col :=
  let nm := freeName (col ++ "_" ++ field ++ "_ASC") (c.indexes.map (·.name)) 16
  { c with indexes := c.indexes ++ [⟨nm, c.nextIndex, field⟩], nextIndex := c.nextIndex + 1 }

def dropIndexF (k : Nat) (c : Col) : Col :=
  let names := sortNames (c.indexes.map (·.name))
  match names[k % (if names.length == 0 then 1 else names.length)]? with
  | some nm => { c with indexes := c.indexes.filter (·.name != nm) }
  | none => c

def addFieldF (field : String) (c : Col) : Col :=
  if c.fields.any (·.1 == field) then c
  else { c with fields := c.fields ++ [(field, c.nextField)], nextField := c.nextField + 1 }

/-- the operation on the in-memory state; the result is written through -/
def applyMem (m : Cache) : Op → Cache
  | .addCol name fields indexed =>
    if m.cols.any (·.name == name) then m
    else { m with cols := m.cols ++ [mkCol name m.nextCol fields indexed], nextCol := m.nextCol + 1 }
  | .createIndex col field => { m with cols := updCol m.cols col (addIndexF col field) }
  | .dropIndex col k => { m with cols := updCol m.cols col (dropIndexF k) }
  | .addField col field => { m with cols := updCol m.cols col (addFieldF field) }
  | .p2pAdd col => if m.p2p.contains col then m else { m with p2p := m.p2p ++ [col] }
  | .p2pRemove col => { m with p2p := m.p2p.filter (· != col) }
  | .repSet t col =>
    match m.reps.find? (·.1 == t) with
    | none => { m with reps := m.reps ++ [(t, [col])] }
    | some _ => { m with reps := m.reps.map (fun r => if r.1 == t && !r.2.contains col then (t, r.2 ++ [col]) else r) }
  | .repDel t col =>
    { m with reps := (m.reps.map (fun r => if r.1 == t then (t, r.2.filter (· != col)) else r)).filter (fun r => !r.2.isEmpty) }
  | .restart => m

def step (n : Node) (op : Op) : Node :=
  match op with
  | .restart => restart n
  | op => let m := applyMem n.mem op; ⟨persist m, m⟩

def run (ops : List Op) : Node := ops.foldl step {}

/-- the invariant: memory is what start-up would rebuild -/
def Coherent (n : Node) : Prop := n.mem = load n.store

/-- identifiers issued so far for collections -/
def colIds (n : Node) : List Nat := n.mem.cols.map (·.shortId)

end Defra.Restart
