import DefraModel.Schema
import DefraModel.Proofs.SchemaStore

/-!
# C19 — schema evolution never alters existing data

For the schema model (`DefraModel/Schema.lean`), every node state, patch and switch of the active version:

* `patch_keeps_data`, `setActive_keeps_data` — the documents, their commit history and the data store are untouched;
* `patch_keeps_common_reads`, `setActive_keeps_common_reads` — every field the old and the new active version
  share reads the same for every document;
* `added_field_reads_null` — a field no version of the node knew before reads null for every existing document
  (the store only holds fields of known versions: `store_fields_known`, an invariant over all histories);
* `readable_under_any_version` — what is read under a version is the stored register of every field the version
  has, whichever version it was written under;
* `agree_on_common_fields_partial` — two nodes that exchanged all commits and whose active versions knew the field
  of every commit when it arrived agree on every field both know (the stored value is the maximum over the SET of
  applied commits, `stored_value_of_same_members`);
* `field_learned_after_merge_disagrees` — without that hypothesis the full statement FAILS in the model (and in
  the code): a commit that arrived before the node learned its field is never applied (known finding).
-/
namespace Defra.Schema

/-! ### schema operations do not touch data -/

theorem patch_keeps_data (n : Node) (f : Field) (sd : Bool) :
    (patch n f sd).history = n.history ∧ (patch n f sd).docs = n.docs ∧ store (patch n f sd) = store n := by
  simp [patch, store]

theorem setActive_keeps_data (n : Node) (v : Version) :
    (setActive n v).history = n.history ∧ (setActive n v).docs = n.docs ∧ store (setActive n v) = store n := by
  unfold setActive
  split <;> simp [store]

theorem read_of_store_eq {a b : Node} (hs : store a = store b) (d : Nat) (f : Field)
    (ha : a.active.contains f = true) (hb : b.active.contains f = true) : read a d f = read b d f := by
  unfold read
  rw [if_pos ha, if_pos hb, hs]

/-- a field of both the old and the new active version reads the same after a patch -/
theorem patch_keeps_common_reads (n : Node) (g : Field) (sd : Bool) (d : Nat) (f : Field)
    (hold : n.active.contains f = true) (hnew : (patch n g sd).active.contains f = true) :
    read (patch n g sd) d f = read n d f :=
  read_of_store_eq (patch_keeps_data n g sd).2.2 d f hnew hold

/-- ... and after any switch of the active version, back or forth, also to a sibling version -/
theorem setActive_keeps_common_reads (n : Node) (v : Version) (d : Nat) (f : Field)
    (hold : n.active.contains f = true) (hnew : (setActive n v).active.contains f = true) :
    read (setActive n v) d f = read n d f :=
  read_of_store_eq (setActive_keeps_data n v).2.2 d f hnew hold

/-- switching away and back restores every read -/
theorem switch_back_restores (n : Node) (v : Version) (hv : n.versions.contains v = true)
    (hact : n.versions.contains n.active = true) (d : Nat) (f : Field) :
    read (setActive (setActive n v) n.active) d f = read n d f := by
  have h1 : (setActive n v) = { n with active := v } := by unfold setActive; rw [if_pos hv]
  have h2 : (setActive (setActive n v) n.active).active = n.active := by
    rw [h1]; unfold setActive; simp only; rw [if_pos hact]
  have h3 : store (setActive (setActive n v) n.active) = store n := by
    rw [(setActive_keeps_data _ _).2.2, (setActive_keeps_data _ _).2.2]
  unfold read
  rw [h2, h3]

/-! ### what the store can contain -/

/-- every applied commit's field belongs to a version the node knows -/
def FieldsKnown (n : Node) : Prop :=
  n.versions.contains n.active = true ∧ ∀ c ∈ n.applied, ∃ v ∈ n.versions, c.field ∈ v

theorem fieldsKnown_init : FieldsKnown {} := by
  refine ⟨by decide, ?_⟩
  intro c hc; cases hc

theorem fieldsKnown_patch {n : Node} (h : FieldsKnown n) (f : Field) (sd : Bool) : FieldsKnown (patch n f sd) := by
  obtain ⟨ha, hf⟩ := h
  have hsub : ∀ v, v ∈ n.versions → v ∈ (patch n f sd).versions := by
    intro v hv
    unfold patch
    simp only
    split
    · exact hv
    · exact List.mem_append_left _ hv
  have hnew : (n.active ++ [f]) ∈ (patch n f sd).versions := by
    unfold patch
    simp only
    split
    · rename_i hc; simpa using hc
    · exact List.mem_append_right _ (List.mem_singleton.mpr rfl)
  refine ⟨?_, ?_⟩
  · have : (patch n f sd).active = if sd then n.active ++ [f] else n.active := rfl
    rw [this]
    cases sd with
    | true => simpa using hnew
    | false =>
      have := hsub n.active (by simpa using ha)
      simpa using this
  · intro c hc
    obtain ⟨v, hv, hcv⟩ := hf c hc
    exact ⟨v, hsub v hv, hcv⟩

theorem fieldsKnown_setActive {n : Node} (h : FieldsKnown n) (v : Version) : FieldsKnown (setActive n v) := by
  unfold setActive
  split
  · rename_i hc
    exact ⟨hc, h.2⟩
  · exact h

theorem fieldsKnown_receive {n : Node} (h : FieldsKnown n) (c : Commit) : FieldsKnown (receive n c) := by
  unfold receive
  split
  · exact h
  · refine ⟨h.1, ?_⟩
    intro x hx
    simp only at hx
    split at hx
    · rename_i hact
      rcases List.mem_append.mp hx with hx | hx
      · exact h.2 x hx
      · simp only [List.mem_singleton] at hx
        subst hx
        exact ⟨n.active, by simpa using h.1, by simpa using hact⟩
    · exact h.2 x hx

theorem fieldsKnown_write {n : Node} (h : FieldsKnown n) (d : Nat) (f : Field) (v : Nat) :
    FieldsKnown (write n d f v) := fieldsKnown_receive h _

theorem fieldsKnown_sync {src dst : Node} (h : FieldsKnown dst) : FieldsKnown (sync src dst) := by
  unfold sync
  generalize src.history = cs
  induction cs generalizing dst with
  | nil => exact h
  | cons c t ih => exact ih (fieldsKnown_receive h c)

/-- a commit found in the store is one of the applied commits' (doc, field) registers -/
theorem lookup_some_field {cs : List Commit} {d : Nat} {f : Field} {e : Commit}
    (h : lookup (cs.foldl applyCommit []) d f = some e) : ∃ c ∈ cs, c.field = f := by
  rw [lookup_fold] at h
  have hl : lookup ([] : List Commit) d f = none := rfl
  rw [hl] at h
  obtain ⟨hr, _, _⟩ := fold_combine_spec cs d f none e h
  rcases hr with hr | ⟨hm, ha⟩
  · cases hr
  · have hcd : e.doc = d ∧ e.field = f := by simpa [at_] using ha
    exact ⟨e, hm, hcd.2⟩

/-- **Added fields read null.** A field that no version known to the node contains reads null for every document
    once a patch adds it. -/
theorem added_field_reads_null (n : Node) (h : FieldsKnown n) (f : Field) (sd : Bool)
    (hfresh : ∀ v ∈ n.versions, f ∉ v) (d : Nat) : read (patch n f sd) d f = none := by
  unfold read
  split
  · rw [(patch_keeps_data n f sd).2.2]
    cases hl : lookup (store n) d f with
    | none => rfl
    | some e =>
      exfalso
      obtain ⟨c, hc, hcf⟩ := lookup_some_field (cs := n.applied) hl
      obtain ⟨v, hv, hcv⟩ := h.2 c hc
      rw [hcf] at hcv
      exact hfresh v hv hcv
  · rfl

/-- **Readable under any version.** What a version reads for one of its fields is the stored register, whichever
    version was active when it was written. -/
theorem readable_under_any_version (n : Node) (v : Version) (hv : n.versions.contains v = true) (d : Nat) (f : Field)
    (hf : v.contains f = true) : read (setActive n v) d f = (lookup (store n) d f).map (·.value) := by
  have h1 : (setActive n v) = { n with active := v } := by unfold setActive; rw [if_pos hv]
  rw [h1]
  unfold read
  simp only
  rw [if_pos hf]
  rfl

/-! ### nodes on different versions -/

/-- **Agreement (partial).** If two nodes applied the same set of commits to the register of document `d` and
    field `f` — which is the case when they exchanged all commits and each one's active version knew `f` whenever
    a commit of `f` arrived — they read the same value for `f` whenever both active versions have it.
    Missing for the full statement: commits that arrived before the node learned the field
    (`field_learned_after_merge_disagrees`). -/
theorem agree_on_common_fields_partial (a b : Node) (d : Nat) (f : Field)
    (hsame : ∀ c, c.doc = d → c.field = f → (c ∈ a.applied ↔ c ∈ b.applied))
    (ha : a.active.contains f = true) (hb : b.active.contains f = true) : read a d f = read b d f := by
  have := stored_value_of_same_members a.applied b.applied d f (by
    intro c hc
    have hcd : c.doc = d ∧ c.field = f := by simpa [at_] using hc
    exact hsame c hcd.1 hcd.2)
  unfold read store
  rw [if_pos ha, if_pos hb]
  cases h1 : lookup (a.applied.foldl applyCommit []) d f with
  | none =>
    rw [h1] at this
    cases h2 : lookup (b.applied.foldl applyCommit []) d f with
    | none => rfl
    | some e => rw [h2] at this; cases this
  | some e1 =>
    rw [h1] at this
    cases h2 : lookup (b.applied.foldl applyCommit []) d f with
    | none => rw [h2] at this; cases this
    | some e2 =>
      rw [h2] at this
      simp only [Option.map_some, Option.some.injEq, Prod.mk.injEq] at this
      simp [this.2]

/-- every commit a node knows whose field its active version knew on arrival was applied: with a fixed active
    version that knows the field, history and applied commits of that field coincide -/
theorem receive_applies_known (n : Node) (c : Commit) (hk : n.active.contains c.field = true)
    (hnew : n.history.contains c = false) : c ∈ (receive n c).applied := by
  unfold receive
  rw [if_neg (by rw [hnew]; exact Bool.false_ne_true)]
  simp only
  rw [if_pos hk]
  exact List.mem_append_right _ (List.mem_singleton.mpr rfl)

def nodeA : Node := write (patch {} "city" true) 0 "city" 7
def nodeB : Node := sync nodeA (patch (sync nodeA {}) "city" true)

/-- The full statement fails: node A adds `city` and writes it; B receives the commit while it does not know
    `city`, then applies the same patch and exchanges all commits again — both know `city`, A reads 7, B reads
    null. The same history on the implementation is the known finding `field-learned-after-merge`. -/
theorem field_learned_after_merge_disagrees :
    nodeA.active = nodeB.active ∧ (∀ c, c ∈ nodeA.history ↔ c ∈ nodeB.history) ∧
    read nodeA 0 "city" = some 7 ∧ read nodeB 0 "city" = none := by
  refine ⟨by decide, ?_, by decide, by decide⟩
  have : nodeA.history = nodeB.history := by decide
  intro c; rw [this]

/-! ### non-vacuity -/

/-- sibling versions: v2 = [name, email]; v3a adds nick and a document writes it; back on v2, v3b adds phone:
    phone reads null, nick is untouched when switching back -/
example :
    let n0 : Node := patch (patch {} "email" true) "nick" true
    let n1 := write (write n0 0 "name" 1) 0 "nick" 5
    let n2 := patch (setActive n1 ["name", "email"]) "phone" true
    let n3 := write n2 0 "phone" 9
    read n2 0 "phone" = none ∧ read n3 0 "phone" = some 9 ∧
    read (setActive n3 ["name", "email", "nick"]) 0 "nick" = some 5 ∧
    read (setActive n3 ["name", "email", "nick"]) 0 "phone" = none := by decide

end Defra.Schema
