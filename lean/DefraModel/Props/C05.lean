/-
C05 — Mutations are all-or-nothing, also when the storage layer fails mid-way.
Theorems about DefraModel/Kv/TxnM.lean, for EVERY program, store and fault oracle (any number of faults at
any positions, including the commit itself).  The code is tied to the model in two ways, re-run on every check:
(1) `Generated/*.lean` obligations (regenerated from /repo by tools/extract): every mutating API method follows
the begin / deferred discard / propagate every error / commit-last calling convention, update events are only
published from commit-success callbacks, and no storage error on the write path is dropped;
(2) exhaustive fault enumeration on the real code (harness/fault): every storage operation index of every
operation of a catalogue, byte-comparison of the whole store.
-/
import DefraModel.Proofs.TxnAtomic
namespace Defra.Props.C05
open Defra Defra.Kv

/-- **all or nothing**: every call either reports an error, leaves the committed store exactly as it was and
    publishes nothing, or reports success, commits ALL writes of its body at once and publishes exactly the
    registered events -/
theorem withTxn_atomic {α : Type} (fails : Nat → Bool) (body : Prog α) (store : Store) :
    ((withTxn fails body store).res = .err ∧ (withTxn fails body store).store = store ∧
      (withTxn fails body store).published = []) ∨
    (∃ a t, run fails body { snapshot := store } = (.ok a, t) ∧
      (withTxn fails body store).res = .ok a ∧ (withTxn fails body store).store = t.view ∧
      (withTxn fails body store).published = t.callbacks) := by
  rcases withTxn_cases fails body store with h | ⟨a, t, h1, _, h2, h3, h4⟩
  · exact Or.inl h
  · exact Or.inr ⟨a, t, h1, h2, h3, h4⟩

/-- **success means the complete effect**: a call that reports success under ANY fault oracle has exactly the
    result, the store and the events of the fault-free run — never a proper part of them -/
theorem success_is_complete {α : Type} (fails : Nat → Bool) (body : Prog α) (store : Store) (a : α)
    (h : (withTxn fails body store).res = .ok a) :
    (withTxn fails body store).store = (withTxn (fun _ => false) body store).store ∧
    (withTxn fails body store).published = (withTxn (fun _ => false) body store).published ∧
    (withTxn (fun _ => false) body store).res = .ok a := by
  rcases withTxn_cases fails body store with ⟨he, _, _⟩ | ⟨a', t, hr, _, h2, h3, h4⟩
  · rw [he] at h; cases h
  · have hff := run_ok_eq_faultfree fails body _ a' t hr
    have : a' = a := by rw [h2] at h; cases h; rfl
    subst this
    rw [h3, h4]
    unfold withTxn
    rw [hff]
    simp

/-- an update notification is published only if the change was committed -/
theorem event_only_if_committed {α : Type} (fails : Nat → Bool) (body : Prog α) (store : Store)
    (e : Event) (h : e ∈ (withTxn fails body store).published) :
    ∃ a, (withTxn fails body store).res = .ok a := by
  rcases withTxn_cases fails body store with ⟨_, _, hp⟩ | ⟨a, _, _, _, h2, _, _⟩
  · rw [hp] at h; cases h
  · exact ⟨a, h2⟩

/-- ... and if it was committed, every registered notification is published (fault-free run as reference) -/
theorem committed_publishes_all {α : Type} (fails : Nat → Bool) (body : Prog α) (store : Store) (a : α)
    (h : (withTxn fails body store).res = .ok a) :
    (withTxn fails body store).published = (withTxn (fun _ => false) body store).published :=
  (success_is_complete fails body store a h).2.1

/-- a failed call is invisible to every later call: the history behaves as if it had not been issued -/
theorem failed_call_leaves_no_trace {α : Type} (f : Nat → Bool) (p : Prog α) (rest : List ((Nat → Bool) × Prog α))
    (s : Store) (h : (withTxn f p s).res = .err) :
    runCalls ((f, p) :: rest) s = runCalls rest s := by
  rcases withTxn_cases f p s with ⟨_, hs, hp⟩ | ⟨a, _, _, _, h2, _, _⟩
  · simp only [runCalls, hs, hp, List.nil_append]
  · rw [h2] at h; cases h

/-- the calls of a history that report success, each with the fault-free oracle -/
def survivors {α : Type} : List ((Nat → Bool) × Prog α) → Store → List ((Nat → Bool) × Prog α)
  | [], _ => []
  | (f, p) :: rest, s =>
    match (withTxn f p s).res with
    | .err => survivors rest s
    | .ok _ => ((fun _ => false), p) :: survivors rest (withTxn f p s).store

/-- **a history under faults is the fault-free history of its successful calls**: for every sequence of API
    calls and every fault oracle per call, the final store and the whole sequence of published notifications are
    exactly those of running only the calls that reported success, without any fault — a failed call contributes
    nothing, a successful one everything, at every position of every history -/
theorem history_is_its_successes {α : Type} (calls : List ((Nat → Bool) × Prog α)) :
    ∀ s : Store, runCalls calls s = runCalls (survivors calls s) s := by
  induction calls with
  | nil => intro s; rfl
  | cons c rest ih =>
    intro s
    obtain ⟨f, p⟩ := c
    cases hr : (withTxn f p s).res with
    | err =>
      rw [failed_call_leaves_no_trace f p rest s hr]
      simp only [survivors, hr]
      exact ih s
    | ok a =>
      obtain ⟨hs, hp, _⟩ := success_is_complete f p s a hr
      simp only [survivors, hr, runCalls]
      rw [← hs, ← hp, ← ih (withTxn f p s).store]

/-- **explicit transactions**: calls made inside a caller's transaction change nothing that is committed and
    publish nothing until the creator commits; then all of it happens at once, or nothing on failure/discard -/
theorem explicit_commit_all_or_nothing (fails : Nat → Bool) (t : Txn) (store : Store) :
    ((commitTxn fails t store).res = .err ∧ (commitTxn fails t store).store = store ∧
      (commitTxn fails t store).published = []) ∨
    ((commitTxn fails t store).res = .ok () ∧ (commitTxn fails t store).store = applyWrites store t.writes ∧
      (commitTxn fails t store).published = t.callbacks) := by
  unfold commitTxn
  by_cases hf : fails (t.ticks + 1) = true
  · simp [hf]
  · simp [hf]

theorem explicit_discard_no_trace (store : Store) :
    (discardTxn store).store = store ∧ (discardTxn store).published = [] := ⟨rfl, rfl⟩

/-! non-vacuity: a body with two writes and one notification, fault at the second write / at the commit -/
def body2 : Prog Nat := .set [1] [10] (.onSuccess 7 (.set [2] [20] (.pure 5)))
def empty : Store := fun _ => none

example : (withTxn (fun n => n == 2) body2 empty).published = [] ∧
    (withTxn (fun n => n == 2) body2 empty).store [1] = none := by decide
example : (withTxn (fun n => n == 3) body2 empty).published = [] ∧
    (withTxn (fun n => n == 3) body2 empty).store [1] = none := by decide
example : (withTxn (fun _ => false) body2 empty).published = [7] ∧
    (withTxn (fun _ => false) body2 empty).store [1] = some [10] ∧
    (withTxn (fun _ => false) body2 empty).store [2] = some [20] := by decide

/-- a history of three calls whose second fails at its second write: two notifications, two survivors -/
def hist3 : List ((Nat → Bool) × Prog Nat) := [((fun _ => false), body2), ((fun n => n == 2), body2), ((fun _ => false), body2)]
example : (runCalls hist3 empty).2 = [7, 7] ∧ (survivors hist3 empty).length = 2 := by decide

end Defra.Props.C05
