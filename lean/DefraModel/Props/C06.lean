/-
C06 — Explicit transactions are isolated: snapshot reads, no lost updates.
Theorems about DefraModel/Kv/Mvcc.lean for arbitrary finite schedules of any number of transactions.
The model's commit rule (conflict iff a READ key has a newer committed version) is the storage engine's; it is
validated against the real Badger store by the KV-level stream of harness/txn, and the API level (documents)
is compared with the same model through the document footprints.
-/
import DefraModel.Proofs.MvccIso
namespace Defra.Props.C06
open Defra Defra.Mvcc

/-- **snapshot reads**: a read inside a transaction returns its own latest write of the key, else the value
    committed at its start — and that start value is the same after ANY schedule of other activity -/
theorem snapshot_read (db : DB) (t : Txn) (hstart : t.startTs ≤ db.clock) (others : List Act) (k : Key) :
    t.see (runActs db others).1.versions k = t.see db.versions k := by
  unfold Txn.see
  cases lookupW t.writes k with
  | some v => rfl
  | none => exact run_preserves_snapshot others db t.startTs hstart k

/-- **invisible until commit**: a write inside a transaction changes nothing that anyone else can read -/
theorem write_invisible (db : DB) (i : Nat) (k : Key) (v : Val) :
    (step db (.write i k v)).1.versions = db.versions ∧ (step db (.write i k v)).1.clock = db.clock := by
  simp only [step]
  cases db.txn? i with
  | none => exact ⟨rfl, rfl⟩
  | some t => by_cases hl : t.live <;> simp [hl, DB.setTxn]

/-- **a discarded transaction leaves no trace** -/
theorem discard_no_trace (db : DB) (i : Nat) :
    (step db (.discard i)).1.versions = db.versions ∧ (step db (.discard i)).1.clock = db.clock := by
  simp only [step]
  cases db.txn? i with
  | none => exact ⟨rfl, rfl⟩
  | some t => simp [DB.setTxn]

/-- **a failed (conflicting) commit leaves no trace either** -/
theorem conflict_no_trace (db : DB) (i : Nat) (h : (step db (.commit i)).2 = .conflict) :
    (step db (.commit i)).1.versions = db.versions ∧ (step db (.commit i)).1.clock = db.clock := by
  simp only [step] at h ⊢
  cases hx : db.txn? i with
  | none => simp [hx] at h
  | some t =>
    by_cases hl : t.live
    · by_cases he : t.writes.isEmpty
      · simp [hx, hl, he] at h
      by_cases hc : hasConflict db.versions t
      · simp [hl, he, hc, DB.setTxn]
      · simp [hx, hl, he, hc] at h
    · simp [hx, hl] at h

/-- **writes become visible together**: a successful commit installs every write of the transaction at ONE
    new timestamp, so no reader can see some of them without the others -/
theorem commit_installs_all_at_once (db : DB) (i : Nat) (t : Txn) (ht : db.txn? i = some t)
    (hne : t.writes.isEmpty = false)
    (h : (step db (.commit i)).2 = .committed) :
    (step db (.commit i)).1.versions = db.versions ++ t.writes.map (fun w => ⟨w.1, db.clock + 1, w.2⟩) ∧
    (step db (.commit i)).1.clock = db.clock + 1 := by
  simp only [step, ht] at h ⊢
  by_cases hl : t.live
  · by_cases hc : hasConflict db.versions t
    · simp [hl, hne, hc] at h
    · simp [hl, hne, hc]
  · simp [hl] at h

/-- **no lost update**: of two transactions that both read and write `k` with snapshots taken before either
    committed, once one has committed the other can only get a conflict — whenever it tries, and however many
    other steps happen in between (conflicts never go away: versions are only appended) -/
theorem no_lost_update (db : DB) (i : Nat) (ti tj : Txn) (k : Key)
    (hti : db.txn? i = some ti)
    (hwi : ∃ v, (k, v) ∈ ti.writes) (hrj : k ∈ tj.reads) (hsj : tj.startTs ≤ db.clock)
    (hcommit : (step db (.commit i)).2 = .committed) (later : List Version) (moreReads : List Key) :
    hasConflict ((step db (.commit i)).1.versions ++ later) { tj with reads := tj.reads ++ moreReads } = true := by
  have hne : ti.writes.isEmpty = false := by
    obtain ⟨v, hv⟩ := hwi
    cases hw : ti.writes with
    | nil => rw [hw] at hv; cases hv
    | cons _ _ => rfl
  rw [(commit_installs_all_at_once db i ti hti hne hcommit).1]
  apply hasConflict_append
  apply hasConflict_more_reads
  exact commit_poisons_readers db.versions db.clock ti tj k hwi hrj hsj

/-- and a transaction whose read set has a conflict does not commit -/
theorem conflicting_commit_fails (db : DB) (j : Nat) (tj : Txn) (htj : db.txn? j = some tj) (hl : tj.live = true)
    (hw : tj.writes.isEmpty = false)
    (hc : hasConflict db.versions tj = true) : (step db (.commit j)).2 = .conflict := by
  simp [step, htj, hl, hw, hc]

/-- **a committing transaction's reads are current**: when a transaction with writes commits, every key it read
    from the store still has, at the moment of the commit (and at any timestamp from its snapshot on), the value the
    transaction saw — so the transaction as a whole could have run at its commit point: with
    `commit_installs_all_at_once` this is serializability of the committed read-write transactions in commit order -/
theorem committed_reads_were_current (db : DB) (i : Nat) (t : Txn) (ht : db.txn? i = some t)
    (hne : t.writes.isEmpty = false) (h : (step db (.commit i)).2 = .committed)
    (k : Key) (hk : k ∈ t.reads) (ts : Nat) (hts : t.startTs ≤ ts) :
    readAt db.versions ts k = readAt db.versions t.startTs k := by
  have hnc : hasConflict db.versions t = false := by
    cases hc : hasConflict db.versions t
    · rfl
    · simp only [step, ht] at h
      cases hl : t.live
      · simp [hl] at h
      · simp [hl, hne, hc] at h
  exact noConflict_read_current db.versions t hnc k hk ts hts

/-- a read-only transaction always commits (it has nothing to install): its reads are those of its snapshot
    (`snapshot_read`), which is a state the database really was in -/
theorem read_only_commits (db : DB) (i : Nat) (t : Txn) (ht : db.txn? i = some t) (hl : t.live = true)
    (hw : t.writes.isEmpty = true) : (step db (.commit i)).2 = .committed ∧
    (step db (.commit i)).1.versions = db.versions := by
  simp [step, ht, hl, hw, DB.setTxn]

/-- **only a successful commit changes what is committed**: every other step of any transaction — begin, read,
    write, discard, a refused or conflicting commit, a read from outside — leaves the committed versions and the clock
    exactly as they were -/
theorem only_commits_change_the_store (db : DB) (a : Act) (h : (step db a).2 ≠ .committed) :
    (step db a).1.versions = db.versions ∧ (step db a).1.clock = db.clock := by
  cases a with
  | begin i => simp [step, DB.setTxn]
  | outsideRead k => simp [step]
  | read i k =>
    simp only [step]
    cases db.txn? i with
    | none => exact ⟨rfl, rfl⟩
    | some t => by_cases hl : t.live = true <;> simp [hl, DB.setTxn]
  | write i k v => exact write_invisible db i k v
  | discard i => exact discard_no_trace db i
  | commit i =>
    simp only [step] at h ⊢
    cases hx : db.txn? i with
    | none => exact ⟨rfl, rfl⟩
    | some t =>
      simp only [hx] at h ⊢
      by_cases hl : t.live = true
      · by_cases hw : t.writes.isEmpty = true
        · simp [hl, hw, DB.setTxn]
        · by_cases hc : hasConflict db.versions t = true
          · simp [hl, hw, hc, DB.setTxn]
          · simp [hl, hw, hc] at h
      · simp [hl]

/-- ... hence a whole schedule in which no commit succeeds — any number of transactions writing, reading, being
    discarded or refused, in any interleaving — leaves no trace at all -/
theorem schedules_without_commit_leave_no_trace (acts : List Act) : ∀ (db : DB),
    (∀ o ∈ (runActs db acts).2, o ≠ .committed) →
    (runActs db acts).1.versions = db.versions ∧ (runActs db acts).1.clock = db.clock := by
  induction acts with
  | nil => intro db _; exact ⟨rfl, rfl⟩
  | cons a rest ih =>
    intro db h
    simp only [runActs] at h ⊢
    have h1 : (step db a).2 ≠ .committed := h _ (by simp)
    obtain ⟨hv, hc⟩ := only_commits_change_the_store db a h1
    obtain ⟨hv2, hc2⟩ := ih (step db a).1 (fun o ho => h o (by simp [ho]))
    exact ⟨hv2.trans hv, hc2.trans hc⟩

/-! non-vacuity: two transactions increment the same key from the same snapshot -/
def sched : List Act := [.begin 1, .begin 2, .read 1 7, .read 2 7, .write 1 7 (some 1), .write 2 7 (some 1),
  .commit 1, .outsideRead 7, .commit 2, .outsideRead 7]

example : (runActs {} sched).2 =
    [.none, .none, .val none, .val none, .none, .none, .committed, .val (some 1), .conflict, .val (some 1)] := by
  decide

/-- a transaction that read a key nobody changed commits, and what it read is what the store holds at commit -/
def sched2 : List Act := [.begin 1, .begin 2, .read 1 7, .write 1 8 (some 5), .write 2 9 (some 6), .commit 2, .commit 1,
  .outsideRead 7, .outsideRead 8, .outsideRead 9]
example : (runActs {} sched2).2 =
    [.none, .none, .val none, .none, .none, .committed, .committed, .val none, .val (some 5), .val (some 6)] := by
  decide

/-- a transaction that writes, reads its own write and is discarded; its late commit is refused -/
example : (runActs {} [.begin 1, .write 1 7 (some 1), .read 1 7, .discard 1, .commit 1]).2 = [.none, .none, .val (some 1), .none, .notLive] ∧
    (runActs {} [.begin 1, .write 1 7 (some 1), .read 1 7, .discard 1, .commit 1]).1.versions = [] := by decide

end Defra.Props.C06
