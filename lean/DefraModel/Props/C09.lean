import DefraModel.Relation
import DefraModel.Proofs.RelationInv

/-!
# C09 — relations read the same from both sides

For the relation model (`DefraModel/Relation.lean`), every database, relation and predicate:

* `child_iff_points_to` — a document is among the related documents of `p` exactly when it is a live document of
  the child collection whose own relation field points to `p`;
* `join_from_parent_iff_from_child` — the join driven from the parent side and the join driven from the child side
  relate the same pairs (identifiers unique);
* `inverted_join_parents` — the inverted join (children visited in ANY order, e.g. the order of any index) yields
  every parent at most once, yields exactly the parents some visited child points to, each with all its children;
  `inverted_filter_eq_direct` — hence, visiting the children that satisfy a predicate, it yields the same parents
  as evaluating the predicate per parent over its children;
* `inverted_from_parents_pairs` — the inverted join from the other side (parents visited in any order, parents
  without children contribute nothing and do not end the walk) yields exactly the pairs of the specification;
  `inverted_children_eq_direct` — hence the same children as filtering every child by its parent;
* `one_to_one_never_double_linked` — over every history of local creates, relinks, unlinks, value updates and
  deletes, no link of a one-to-one collection is held by two live documents at once.
-/
namespace Defra.Relation

theorem child_iff_points_to (db : DB) (r : Rel) (p c : Doc) :
    c ∈ children db r p ↔ c ∈ live db r.child ∧ c.fk = some p.id := by
  simp [children, List.mem_filter]

theorem parentOf_eq_some {db : DB} {r : Rel} {c p : Doc} (h : parentOf db r c = some p) :
    p ∈ live db r.parent ∧ c.fk = some p.id := by
  unfold parentOf at h
  cases hk : c.fk with
  | none => rw [hk] at h; cases h
  | some k =>
    rw [hk] at h
    simp only at h
    have h1 := List.find?_some h
    have h2 := List.mem_of_find?_eq_some h
    simp only [beq_iff_eq] at h1
    exact ⟨h2, by rw [h1]⟩

/-- with unique identifiers the lookup by key finds exactly the live parent with that identifier -/
theorem parentOf_of_points {db : DB} (hu : IdsUnique db) {r : Rel} {c p : Doc}
    (hp : p ∈ live db r.parent) (hk : c.fk = some p.id) : parentOf db r c = some p := by
  unfold parentOf
  rw [hk]
  simp only
  cases hf : (live db r.parent).find? (fun q => q.id == p.id) with
  | none =>
    have := List.find?_eq_none.mp hf p hp
    simp at this
  | some q =>
    have h1 := List.find?_some hf
    have h2 := List.mem_of_find?_eq_some hf
    simp only [beq_iff_eq] at h1
    have := hu q (mem_live.mp h2).1 p (mem_live.mp hp).1 h1
    rw [this]

/-- **Both sides agree.** `c` is listed under `p` by the join driven from the parent side exactly when the join
    driven from the child side gives `p` as the parent of `c`. -/
theorem join_from_parent_iff_from_child (db : DB) (hu : IdsUnique db) (r : Rel) (p c : Doc) :
    (∃ kids, (p, kids) ∈ joinFromParent db r ∧ c ∈ kids) ↔ (c, some p) ∈ joinFromChild db r := by
  unfold joinFromParent joinFromChild
  constructor
  · rintro ⟨kids, hm, hc⟩
    obtain ⟨p', hp', heq⟩ := List.mem_map.mp hm
    simp only [Prod.mk.injEq] at heq
    obtain ⟨rfl, rfl⟩ := heq
    obtain ⟨hcl, hfk⟩ := List.mem_filter.mp hc
    simp only [beq_iff_eq] at hfk
    exact List.mem_map.mpr ⟨c, hcl, by rw [parentOf_of_points hu hp' hfk]⟩
  · intro hm
    obtain ⟨c', hc', heq⟩ := List.mem_map.mp hm
    simp only [Prod.mk.injEq] at heq
    obtain ⟨rfl, hpo⟩ := heq
    obtain ⟨hp, hfk⟩ := parentOf_eq_some hpo
    exact ⟨_, List.mem_map.mpr ⟨p, hp, rfl⟩, List.mem_filter.mpr ⟨hc', by simp [hfk]⟩⟩

/-! ### the inverted join driven by the children -/

theorem inverted_mem {db : DB} {r : Rel} (visit : List Doc) (seen : List Nat) (p : Doc) (kids : List Doc) :
    (p, kids) ∈ invertedFromChildren db r visit seen →
      p ∈ live db r.parent ∧ kids = children db r p ∧ p.id ∉ seen ∧ ∃ c ∈ visit, c.fk = some p.id := by
  induction visit generalizing seen with
  | nil => intro h; simp [invertedFromChildren] at h
  | cons c rest ih =>
    intro h
    unfold invertedFromChildren at h
    cases hk : c.fk with
    | none =>
      rw [hk] at h
      obtain ⟨a, b, c1, d, hd, hfk⟩ := ih seen h
      exact ⟨a, b, c1, d, List.mem_cons_of_mem _ hd, hfk⟩
    | some k =>
      rw [hk] at h
      simp only at h
      by_cases hs : seen.contains k = true
      · rw [if_pos hs] at h
        obtain ⟨a, b, c1, d, hd, hfk⟩ := ih seen h
        exact ⟨a, b, c1, d, List.mem_cons_of_mem _ hd, hfk⟩
      · rw [if_neg hs] at h
        cases hf : (live db r.parent).find? (fun q => q.id == k) with
        | none =>
          rw [hf] at h
          obtain ⟨a, b, c1, d, hd, hfk⟩ := ih (k :: seen) h
          exact ⟨a, b, fun hm => c1 (List.mem_cons_of_mem _ hm), d, List.mem_cons_of_mem _ hd, hfk⟩
        | some q =>
          rw [hf] at h
          have h1 := List.find?_some hf
          have h2 := List.mem_of_find?_eq_some hf
          simp only [beq_iff_eq] at h1
          rcases List.mem_cons.mp h with h | h
          · simp only [Prod.mk.injEq] at h
            obtain ⟨rfl, rfl⟩ := h
            refine ⟨h2, rfl, ?_, c, List.mem_cons_self, by rw [hk, h1]⟩
            rw [h1]
            simpa using hs
          · obtain ⟨a, b, c1, d, hd, hfk⟩ := ih (k :: seen) h
            exact ⟨a, b, fun hm => c1 (List.mem_cons_of_mem _ hm), d, List.mem_cons_of_mem _ hd, hfk⟩

/-- every parent the inverted join yields has an identifier different from all it yields later: no duplicates -/
theorem inverted_nodup {db : DB} {r : Rel} (visit : List Doc) (seen : List Nat) :
    ((invertedFromChildren db r visit seen).map (fun pk => pk.1.id)).Nodup := by
  induction visit generalizing seen with
  | nil => simp [invertedFromChildren]
  | cons c rest ih =>
    unfold invertedFromChildren
    cases hk : c.fk with
    | none => exact ih seen
    | some k =>
      simp only
      by_cases hs : seen.contains k = true
      · rw [if_pos hs]; exact ih seen
      · rw [if_neg hs]
        cases hf : (live db r.parent).find? (fun q => q.id == k) with
        | none => exact ih (k :: seen)
        | some q =>
          simp only [List.map_cons, List.nodup_cons]
          refine ⟨?_, ih (k :: seen)⟩
          intro hm
          obtain ⟨⟨p, kids⟩, hpk, hid⟩ := List.mem_map.mp hm
          have := (inverted_mem rest (k :: seen) p kids hpk).2.2.1
          have h1 := List.find?_some hf
          simp only [beq_iff_eq] at h1
          simp only at hid
          rw [hid, h1] at this
          exact this List.mem_cons_self

theorem inverted_complete {db : DB} (hu : IdsUnique db) {r : Rel} (visit : List Doc) (seen : List Nat) (p : Doc)
    (hp : p ∈ live db r.parent) (hns : p.id ∉ seen) (c : Doc) (hc : c ∈ visit) (hfk : c.fk = some p.id) :
    (p, children db r p) ∈ invertedFromChildren db r visit seen := by
  induction visit generalizing seen with
  | nil => cases hc
  | cons d rest ih =>
    unfold invertedFromChildren
    have hfind : (live db r.parent).find? (fun q => q.id == p.id) = some p := by
      cases hf : (live db r.parent).find? (fun q => q.id == p.id) with
      | none => have := List.find?_eq_none.mp hf p hp; simp at this
      | some q =>
        have h1 := List.find?_some hf
        have h2 := List.mem_of_find?_eq_some hf
        simp only [beq_iff_eq] at h1
        rw [hu q (mem_live.mp h2).1 p (mem_live.mp hp).1 h1]
    rcases List.mem_cons.mp hc with rfl | hc
    · rw [hfk]
      simp only
      have : ¬ (seen.contains p.id = true) := by simpa using hns
      rw [if_neg this, hfind]
      exact List.mem_cons_self
    · cases hk : d.fk with
      | none => exact ih seen hns hc
      | some k =>
        simp only
        by_cases hs : seen.contains k = true
        · rw [if_pos hs]; exact ih seen hns hc
        · rw [if_neg hs]
          by_cases hkp : k = p.id
          · subst hkp
            rw [hfind]
            exact List.mem_cons_self
          · have hns' : p.id ∉ k :: seen := by
              intro hm
              rcases List.mem_cons.mp hm with h | h
              · exact hkp h.symm
              · exact hns h
            cases hf : (live db r.parent).find? (fun q => q.id == k) with
            | none => exact ih (k :: seen) hns' hc
            | some q => exact List.mem_cons_of_mem _ (ih (k :: seen) hns' hc)

/-- **Inverted join.** Visiting any list of children in any order: each parent is yielded at most once, with all
    its children, and the parents yielded are exactly the live parents some visited child points to. -/
theorem inverted_join_parents (db : DB) (hu : IdsUnique db) (r : Rel) (visit : List Doc) :
    ((invertedFromChildren db r visit []).map (fun pk => pk.1.id)).Nodup ∧
    ∀ p kids, (p, kids) ∈ invertedFromChildren db r visit [] ↔
      (p ∈ live db r.parent ∧ kids = children db r p ∧ ∃ c ∈ visit, c.fk = some p.id) := by
  refine ⟨inverted_nodup visit [], ?_⟩
  intro p kids
  constructor
  · intro h
    obtain ⟨a, b, _, d⟩ := inverted_mem visit [] p kids h
    exact ⟨a, b, d⟩
  · rintro ⟨hp, rfl, c, hc, hfk⟩
    exact inverted_complete hu visit [] p hp (by simp) c hc hfk

/-- Hence a parent-side request filtered through the relation gives the same parents whether the predicate is
    evaluated per parent over its children or the matching children are visited in the order `visit` of an index
    (any list with the same members as the matching live children). -/
theorem inverted_filter_eq_direct (db : DB) (hu : IdsUnique db) (r : Rel) (q : Doc → Bool) (visit : List Doc)
    (hv : ∀ c, c ∈ visit ↔ c ∈ (live db r.child).filter q) (p : Doc) :
    (∃ kids, (p, kids) ∈ invertedFromChildren db r visit []) ↔ p ∈ parentsWith db r q := by
  unfold parentsWith
  rw [List.mem_filter, List.any_eq_true]
  constructor
  · rintro ⟨kids, h⟩
    obtain ⟨hp, _, c, hc, hfk⟩ := ((inverted_join_parents db hu r visit).2 p kids).mp h
    obtain ⟨hcl, hq⟩ := List.mem_filter.mp ((hv c).mp hc)
    exact ⟨hp, c, (child_iff_points_to db r p c).mpr ⟨hcl, hfk⟩, hq⟩
  · rintro ⟨hp, c, hc, hq⟩
    obtain ⟨hcl, hfk⟩ := (child_iff_points_to db r p c).mp hc
    exact ⟨_, ((inverted_join_parents db hu r visit).2 p _).mpr
      ⟨hp, rfl, c, (hv c).mpr (List.mem_filter.mpr ⟨hcl, hq⟩), hfk⟩⟩

/-! ### the inverted join driven by the parents -/

/-- visiting any list of parents, the pairs yielded are exactly those of the specification; a parent without
    children contributes nothing and the walk goes on -/
theorem inverted_from_parents_pairs (db : DB) (r : Rel) (visit : List Doc) (c p : Doc) :
    (c, p) ∈ invertedFromParents db r visit ↔ p ∈ visit ∧ c ∈ children db r p := by
  unfold invertedFromParents
  rw [List.mem_flatMap]
  constructor
  · rintro ⟨p', hp', hm⟩
    obtain ⟨c', hc', heq⟩ := List.mem_map.mp hm
    simp only [Prod.mk.injEq] at heq
    obtain ⟨rfl, rfl⟩ := heq
    exact ⟨hp', hc'⟩
  · rintro ⟨hp, hc⟩
    exact ⟨p, hp, List.mem_map.mpr ⟨c, hc, rfl⟩⟩

/-- Hence a child-side request filtered through the relation gives the same children whether every child's parent
    is looked up and tested, or the matching parents are visited in the order of an index. -/
theorem inverted_children_eq_direct (db : DB) (hu : IdsUnique db) (r : Rel) (q : Doc → Bool) (visit : List Doc)
    (hv : ∀ p, p ∈ visit ↔ p ∈ (live db r.parent).filter q) (c : Doc) :
    (∃ p, (c, p) ∈ invertedFromParents db r visit) ↔ c ∈ childrenWith db r q := by
  unfold childrenWith
  rw [List.mem_filter]
  constructor
  · rintro ⟨p, h⟩
    obtain ⟨hp, hc⟩ := (inverted_from_parents_pairs db r visit c p).mp h
    obtain ⟨hpl, hq⟩ := List.mem_filter.mp ((hv p).mp hp)
    obtain ⟨hcl, hfk⟩ := (child_iff_points_to db r p c).mp hc
    exact ⟨hcl, by rw [parentOf_of_points hu hpl hfk]; exact hq⟩
  · rintro ⟨hcl, h⟩
    cases hpo : parentOf db r c with
    | none => rw [hpo] at h; cases h
    | some p =>
      rw [hpo] at h
      obtain ⟨hpl, hfk⟩ := parentOf_eq_some hpo
      exact ⟨p, (inverted_from_parents_pairs db r visit c p).mpr
        ⟨(hv p).mpr (List.mem_filter.mpr ⟨hpl, h⟩), (child_iff_points_to db r p c).mpr ⟨hcl, hfk⟩⟩⟩

/-! ### conditions next to the one that drives the inverted join (the repaired defects b5ad122, a3f1f76, 0de542c) -/

/-- a child-side request with a condition `q` on the parent AND a condition `own` on the child itself: visiting the
    matching parents in index order and keeping, of the children referencing each, those that satisfy `own`, gives
    exactly the children the direct evaluation gives — the child's own condition has to stay on the scan of the
    children (b5ad122: it was replaced by the foreign-key condition alone) -/
theorem inverted_children_with_own_condition (db : DB) (hu : IdsUnique db) (r : Rel) (q own : Doc → Bool)
    (visit : List Doc) (hv : ∀ p, p ∈ visit ↔ p ∈ (live db r.parent).filter q) (c : Doc) :
    (∃ p, (c, p) ∈ (invertedFromParents db r visit).filter (fun cp => own cp.1)) ↔
      c ∈ (childrenWith db r q).filter own := by
  constructor
  · rintro ⟨p, h⟩
    obtain ⟨hm, ho⟩ := List.mem_filter.mp h
    exact List.mem_filter.mpr ⟨(inverted_children_eq_direct db hu r q visit hv c).mp ⟨p, hm⟩, ho⟩
  · intro h
    obtain ⟨hm, ho⟩ := List.mem_filter.mp h
    obtain ⟨p, hp⟩ := (inverted_children_eq_direct db hu r q visit hv c).mpr hm
    exact ⟨p, List.mem_filter.mpr ⟨hp, ho⟩⟩

/-- the direct evaluation of a condition on the single related document when a missing related document reads as nil:
    `qnil` says whether nil satisfies the condition (`_ne v`, `_nin`, `_nlike`, a null operand) -/
def childrenWithNil (db : DB) (r : Rel) (q : Doc → Bool) (qnil : Bool) : List Doc :=
  (live db r.child).filter (fun c => match parentOf db r c with
    | some p => q p
    | none => qnil)

/-- when nil does not satisfy the condition, this is `childrenWith`, and the inverted join is exact -/
theorem childrenWithNil_false (db : DB) (r : Rel) (q : Doc → Bool) :
    childrenWithNil db r q false = childrenWith db r q := rfl

/-- **a3f1f76**: when nil satisfies the condition, a child without a (live) parent belongs to the answer and is never
    reached from the parents, whatever the visiting order: the planner must not invert the join for such a condition -/
theorem inverted_join_misses_children_without_parent (db : DB) (r : Rel) (q : Doc → Bool) (visit : List Doc)
    (c : Doc) (hc : c ∈ live db r.child) (hno : parentOf db r c = none)
    (hsub : ∀ p, p ∈ visit → p ∈ live db r.parent) (hu : IdsUnique db) :
    c ∈ childrenWithNil db r q true ∧ ¬ ∃ p, (c, p) ∈ invertedFromParents db r visit := by
  refine ⟨List.mem_filter.mpr ⟨hc, by simp [hno]⟩, ?_⟩
  rintro ⟨p, h⟩
  obtain ⟨hp, hch⟩ := (inverted_from_parents_pairs db r visit c p).mp h
  obtain ⟨_, hfk⟩ := (child_iff_points_to db r p c).mp hch
  rw [parentOf_of_points hu (hsub p hp) hfk] at hno
  cases hno

/-- **0de542c**: every parent the inverted join yields comes with ALL its children, so an aggregate over the related
    documents next to the relation filter counts what the direct evaluation counts -/
theorem inverted_join_counts_all_children (db : DB) (hu : IdsUnique db) (r : Rel) (visit : List Doc)
    (p : Doc) (kids : List Doc) (h : (p, kids) ∈ invertedFromChildren db r visit []) :
    kids.length = (children db r p).length := by
  obtain ⟨_, hk, _⟩ := ((inverted_join_parents db hu r visit).2 p kids).mp h
  rw [hk]

/-! ### one-to-one links -/

theorem run_invariants (o : Nat → Bool) (col : Nat) (hoo : o col = true) (ops : List Op) :
    IdsUnique (run o ops) ∧ Unique (run o ops) col := by
  unfold run
  have h0 : IdsUnique ([] : DB) ∧ Unique ([] : DB) col := by
    constructor
    · intro a ha
      cases ha
    · intro a ha
      simp [live] at ha
  generalize ([] : DB) = db at h0
  induction ops generalizing db with
  | nil => exact h0
  | cons op t ih => exact ih _ ⟨step_idsUnique o h0.1 op, step_unique o col hoo h0.1 h0.2 op⟩

/-- **One-to-one.** After every history of local writes no link of a one-to-one collection is held by two live
    documents at once. -/
theorem one_to_one_never_double_linked (o : Nat → Bool) (col : Nat) (hoo : o col = true) (ops : List Op)
    (a b : Doc) (ha : a ∈ live (run o ops) col) (hb : b ∈ live (run o ops) col) (k : Nat)
    (hka : a.fk = some k) (hkb : b.fk = some k) : a = b := by
  obtain ⟨hu, hun⟩ := run_invariants o col hoo ops
  exact hu a (mem_live.mp ha).1 b (mem_live.mp hb).1 (hun a ha b hb k hka hkb)

/-! ### non-vacuity -/

def sampleDB : DB :=
  [ { id := 0, col := 0, name := "ann", x := some 4 }, { id := 1, col := 0, name := "bob", x := some 5 },
    { id := 2, col := 1, x := some 1, fk := some 1 }, { id := 3, col := 1, x := some 3, fk := some 0 },
    { id := 4, col := 1, x := some 4, fk := some 1 }, { id := 5, col := 1, x := some 9 } ]

/-- index order 1,3,4 of the matching children: the parent of the first and third child is yielded once -/
example : (invertedFromChildren sampleDB ⟨0, 1⟩ [sampleDB[2], sampleDB[3], sampleDB[4]] []).map (fun pk => (pk.1.id, pk.2.map (·.id)))
    = [(1, [2, 4]), (0, [3])] := by decide

example : (parentsWith sampleDB ⟨0, 1⟩ (fun c => c.x == some 4)).map (·.id) = [1] ∧
    (childrenWith sampleDB ⟨0, 1⟩ (fun p => p.name == "ann")).map (·.id) = [3] := by decide

/-- the child without a parent (id 5) of the sample: `name != "ann"` read from the child side keeps it, the walk over the
    parents called otherwise (bob) reaches only bob's children; and with a condition on the child's own `x` next to
    the parent's name the inverted walk agrees with the direct evaluation -/
example : (childrenWithNil sampleDB ⟨0, 1⟩ (fun p => p.name != "ann") true).map (·.id) = [2, 4, 5] ∧
    (invertedFromParents sampleDB ⟨0, 1⟩ [sampleDB[1]]).map (fun cp => cp.1.id) = [2, 4] ∧
    parentOf sampleDB ⟨0, 1⟩ sampleDB[5] = none ∧
    ((invertedFromParents sampleDB ⟨0, 1⟩ [sampleDB[1]]).filter (fun cp => cp.1.x == some 4)).map (fun cp => cp.1.id) = [4] ∧
    ((childrenWith sampleDB ⟨0, 1⟩ (fun p => p.name == "bob")).filter (fun c => c.x == some 4)).map (·.id) = [4] := by decide

/-- a second holder of a one-to-one link is rejected on create and on relink -/
example : (step (fun c => c == 1) [{ id := 0, col := 0 }, { id := 1, col := 1, fk := some 0 }]
      (.create { id := 2, col := 1, fk := some 0 })).2 = false ∧
    (step (fun c => c == 1) [{ id := 0, col := 0 }, { id := 1, col := 1, fk := some 0 }, { id := 2, col := 1 }]
      (.setFk 2 (some 0))).2 = false := by decide

end Defra.Relation
