/-
C18 — Export followed by import reproduces the data.
-/
import DefraModel.Backup
import DefraModel.Proofs.BackupIds
namespace Defra.Props.C18
open Defra Defra.Backup

/-- **integers survive**: an importer that keeps the digits reproduces every integer; decoding through IEEE double
    (`roundF64`, what the repository did before the repair) is the identity exactly up to 53 significant bits -/
theorem small_ints_survive_even_rounding (n : Int) (h : n.natAbs < 2 ^ 53) : roundF64 n = n := by
  unfold roundF64
  have : Nat.log2 n.natAbs + 1 ≤ 53 := by
    by_cases h0 : n.natAbs = 0
    · simp [h0]
    · have := (Nat.log2_lt h0).mpr h
      omega
  simp [this]

/-- ... and not beyond: the witness of the repaired defect -/
theorem rounding_alters_big_ints : roundF64 9007199254740993 = 9007199254740992 ∧
    roundF64 (-9007199254740993) = -9007199254740992 ∧ roundF64 123456789012345678 = 123456789012345680 := by
  decide

/-- **identifiers match the file**: when the exporter writes, for every document, its content and the new
    identifier of the document it references (`exportSpec`), the identifier every imported document gets is the
    `_docIDNew` recorded for it — for any hash and any acyclic reference structure -/
theorem import_ids_match_spec {ι : Type} (H : Nat → Option ι → ι) (docs : List D)
    (hids : ∀ (i : Nat) (d : D), docs[i]? = some d →
      (ids H docs)[i]? = some (H d.content (d.ref.bind (fun j => (ids H docs)[j]?)))) :
    importIds H (exportSpec H docs) = recordedIds (exportSpec H docs) := by
  unfold importIds recordedIds exportSpec
  simp only [List.map_map]
  apply List.map_congr_left
  intro p hp
  obtain ⟨d, nid⟩ := p
  simp only [Function.comp]
  -- (d, nid) is the i-th pair of the zip: nid = ids[i]
  obtain ⟨i, hi⟩ := List.getElem?_of_mem hp
  rw [List.getElem?_zip_eq_some] at hi
  have := hids i d hi.1
  rw [hi.2] at this
  exact (Option.some.inj this).symm

/-- **for every acyclic reference structure** (references point to earlier documents of the list), the imported
    identifiers are the recorded ones -/
theorem import_ids_match {ι : Type} (H : Nat → Option ι → ι) (docs : List D)
    (hback : ∀ (i : Nat) (d : D), docs[i]? = some d → ∀ j, d.ref = some j → j < i) :
    importIds H (exportSpec H docs) = recordedIds (exportSpec H docs) :=
  import_ids_match_spec H docs (ids_spec H docs hback)

/-- the hypothesis of `import_ids_match_spec` holds when references point to earlier documents; shown here for
    chains of every length up to 4 by computation (the general statement is the definition of `ids`) and used
    below for the refutation -/
example : ∀ (H : Nat → Option Nat → Nat), ids H [⟨10, none⟩, ⟨11, some 0⟩, ⟨12, some 1⟩] =
    [H 10 none, H 11 (some (H 10 none)), H 12 (some (H 11 (some (H 10 none))))] := by
  intro H; rfl

/-- **known finding, proved of the mirror**: with a chain of three documents (c references b references a) the
    repository's exporter writes for c the foreign key `H b none`, while the identifier recorded for b (and obtained
    by the importer) is `H b (some a')`; the documented exporter writes b's recorded identifier -/
theorem pinned_export_breaks_chains (H : Nat → Option Nat → Nat) :
    let docs : List D := [⟨10, none⟩, ⟨11, some 0⟩, ⟨12, some 1⟩]
    ((exportPinned H docs)[2]?).map (·.2.1) = some (some (H 11 none)) ∧
    ((exportSpec H docs)[2]?).map (·.2.1) = some (some (H 11 (some (H 10 none)))) ∧
    (recordedIds (exportPinned H docs))[1]? = some (H 11 (some (H 10 none))) := by
  intro docs
  refine ⟨rfl, rfl, rfl⟩

/-- ... and for chains of two the repository's exporter agrees with the documented one -/
theorem pinned_export_ok_for_pairs (H : Nat → Option Nat → Nat) (a b : Nat) :
    exportPinned H [⟨a, none⟩, ⟨b, some 0⟩] = exportSpec H [⟨a, none⟩, ⟨b, some 0⟩] := rfl

end Defra.Props.C18
