/-
C18 — Export followed by import reproduces the data.
-/
import DefraModel.Backup
import DefraModel.Proofs.BackupIds
import DefraModel.Proofs.BackupExport
namespace Defra.Props.C18
open Defra Defra.Backup

/-- **integers survive**: an importer that keeps the digits reproduces every integer; decoding through IEEE double
    (`roundF64`, what the repository did before the repair) is the identity exactly up to 53 significant bits -/
theorem small_ints_survive_even_rounding (n : Int) (h : n.natAbs < 2 ^ 53) : roundF64 n = n := by
  unfold roundF64
  have : Nat.log2 n.natAbs + 1 ≤ 53 := by
    by_cases h0 : n.natAbs = 0
    · simp [h0]
    · have := (Nat.log2_lt h0).mpr h
      omega
  simp [this]

/-- ... and not beyond: the witness of the repaired defect -/
theorem rounding_alters_big_ints : roundF64 9007199254740993 = 9007199254740992 ∧
    roundF64 (-9007199254740993) = -9007199254740992 ∧ roundF64 123456789012345678 = 123456789012345680 := by
  decide

/-- **identifiers match the file**: when the exporter writes, for every document, its content and the new
    identifier of the document it references (`exportSpec`), the identifier every imported document gets is the
    `_docIDNew` recorded for it — for any hash and any acyclic reference structure -/
theorem import_ids_match_spec {ι : Type} (H : Nat → Option ι → ι) (docs : List D)
    (hids : ∀ (i : Nat) (d : D), docs[i]? = some d →
      (ids H docs)[i]? = some (H d.content (d.ref.bind (fun j => (ids H docs)[j]?)))) :
    importIds H (exportSpec H docs) = recordedIds (exportSpec H docs) := by
  unfold importIds recordedIds exportSpec
  simp only [List.map_map]
  apply List.map_congr_left
  intro p hp
  obtain ⟨d, nid⟩ := p
  simp only [Function.comp]
  -- (d, nid) is the i-th pair of the zip: nid = ids[i]
  obtain ⟨i, hi⟩ := List.getElem?_of_mem hp
  rw [List.getElem?_zip_eq_some] at hi
  have := hids i d hi.1
  rw [hi.2] at this
  exact (Option.some.inj this).symm

/-- **for every acyclic reference structure** (references point to earlier documents of the list), the imported
    identifiers are the recorded ones -/
theorem import_ids_match {ι : Type} (H : Nat → Option ι → ι) (docs : List D)
    (hback : ∀ (i : Nat) (d : D), docs[i]? = some d → ∀ j, d.ref = some j → j < i) :
    importIds H (exportSpec H docs) = recordedIds (exportSpec H docs) :=
  import_ids_match_spec H docs (ids_spec H docs hback)

/-- the hypothesis of `import_ids_match_spec` holds when references point to earlier documents; shown here for
    chains of every length up to 4 by computation (the general statement is the definition of `ids`) and used
    below for the refutation -/
example : ∀ (H : Nat → Option Nat → Nat), ids H [⟨10, none⟩, ⟨11, some 0⟩, ⟨12, some 1⟩] =
    [H 10 none, H 11 (some (H 10 none)), H 12 (some (H 11 (some (H 10 none))))] := by
  intro H; rfl

/-- **known finding, proved of the mirror**: with a chain of three documents (c references b references a) the
    repository's exporter writes for c the foreign key `H b none`, while the identifier recorded for b (and obtained
    by the importer) is `H b (some a')`; the documented exporter writes b's recorded identifier -/
theorem pinned_export_breaks_chains (H : Nat → Option Nat → Nat) :
    let docs : List D := [⟨10, none⟩, ⟨11, some 0⟩, ⟨12, some 1⟩]
    ((exportPinned H docs)[2]?).map (·.2.1) = some (some (H 11 none)) ∧
    ((exportSpec H docs)[2]?).map (·.2.1) = some (some (H 11 (some (H 10 none)))) ∧
    (recordedIds (exportPinned H docs))[1]? = some (H 11 (some (H 10 none))) := by
  intro docs
  refine ⟨rfl, rfl, rfl⟩

/-- ... and for chains of two the repository's exporter agrees with the documented one -/
theorem pinned_export_ok_for_pairs (H : Nat → Option Nat → Nat) (a b : Nat) :
    exportPinned H [⟨a, none⟩, ⟨b, some 0⟩] = exportSpec H [⟨a, none⟩, ⟨b, some 0⟩] := rfl

/-! ### the exporter and the importer as they are (`Backup/Export.lean`, compared record by record with /repo by `drv backup`) -/
open Defra.Backup.Export in
/-- **what the file holds**: for every set of documents of a self-referencing collection in which no referenced
    document references another one — any number of documents, in any key order, with self references, references to
    deleted documents, and documents changed since they were created (old and new identifiers differ) — the exporter
    (loop, `keyChangeCache`, recomputed foreign documents, self-reference fix-up) writes for every document its content,
    the NEW identifier of the document it references, and its own new identifier -/
theorem export_writes_new_identifier_of_every_target (store : List Emp)
    (hn : noChain store = true) (hnd : (store.map (·.id)).Nodup) :
    exportImpl store = store.map (specRec store) := exportImpl_eq_spec hn hnd

open Defra.Backup.Export in
/-- **export followed by import reproduces the documents and their relations** under the recorded mapping, for the same
    stores: every foreign key in the file is the recorded new identifier of the live document it referenced (nil when
    that document is gone), and the importer — which detects a self reference by `boss_id = _docIDNew` — gives every
    record exactly the identifier recorded for it.  PARTIAL: the statement for all stores is false, see below -/
theorem export_import_round_trip_partial (store : List Emp)
    (hn : noChain store = true) (hnd : (store.map (·.id)).Nodup) : roundTripOk store = true :=
  roundTrip_of_noChain hn hnd

open Defra.Backup.Export in
/-- **known finding, proved of the mirror of the real exporter**: a chain c -> b -> a of unchanged documents is exported
    with c's key pointing at an identifier no document has -/
theorem export_import_round_trip_fails_on_a_chain :
    let store : List Emp := [⟨[10], 10, none⟩, ⟨[11, 10], 11, some [10]⟩, ⟨[12, 11, 10], 12, some [11, 10]⟩]
    noChain store = false ∧ roundTripOk store = false ∧
    ((exportImpl store)[2]?).map (·.fk) = some (some [11]) ∧ newOf (exportImpl store) [11, 10] = some [11, 10] := by
  decide

/-! non-vacuity of the hypotheses: a changed document (identifier differs from the recomputed one), a reference to it
    listed before it, a self reference and a reference to a deleted document -/
open Defra.Backup.Export in
example :
    let store : List Emp := [⟨[3, 1], 3, some [1]⟩, ⟨[1], 9, none⟩, ⟨[4], 4, some [4]⟩, ⟨[5, 77], 5, some [77]⟩]
    noChain store = true ∧ (store.map (·.id)).Nodup ∧
    exportImpl store = [⟨[3, 1], 3, some [9], [3, 9]⟩, ⟨[1], 9, none, [9]⟩, ⟨[4], 4, some [4], [4]⟩, ⟨[5, 77], 5, none, [5]⟩] := by
  decide

end Defra.Props.C18
