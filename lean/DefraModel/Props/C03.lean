/-
C03 — A document queried at a commit shows exactly the state of that commit.
`versionedVals` mirrors the repaired versioned fetcher (DefraModel/Crdt/Versioned.lean).
Proved for every stored DAG and every commit: the read applies each block AT MOST once (so counters are sums
with one term per block, registers are (height, bytes)-maxima, deletes are sticky), does not depend on the
order in which the queued commits are replayed, and reaches EVERY stored ancestor of the requested commit and
every block an ancestor links (`read_at_commit_replays_every_ancestor_once`): exactly once each.
-/
import DefraModel.Proofs.CrdtVersioned
import DefraModel.Proofs.CrdtVersionedComplete
import DefraModel.Proofs.CrdtVersionedSound
import DefraModel.Props.C01
namespace Defra.Props.C03
open Defra Defra.Crdt

/-- the read at commit `c` is a fold of `applyDelta` over a duplicate-free list of stored blocks -/
theorem versioned_eq_canon_partial (bs : Blocks) (c : Nat) :
    ∃ (ids : List Nat), ids.Nodup ∧ versionedVals bs c = (ids.filterMap bs.get?).foldl applyDelta {} :=
  versionedVals_is_fold_once bs c

/-- **Each ancestor exactly once.** The read at commit `c` is the fold of the merge function over a duplicate-free
    list of blocks that contains `c`, every stored commit reachable from `c` through parent links, and every block
    such a commit links (its field blocks) — for every block store, without any well-formedness assumption. -/
theorem read_at_commit_replays_every_ancestor_once (bs : Blocks) (c : Nat) :
    ∃ (ids : List Nat), ids.Nodup ∧
      versionedVals bs c = (ids.filterMap bs.get?).foldl applyDelta {} ∧
      (∀ (n x : Nat) (b : Block), Path bs c x n → bs.get? x = some b → x ∈ ids ∧ ∀ l ∈ b.links, l ∈ ids) :=
  versionedVals_exact bs c

/-- … and nothing else: everything the read replays is an ancestor-or-self of `c` or reachable from one through links -/
theorem read_at_commit_replays_nothing_else (bs : Blocks) (c : Nat) :
    ∃ (ids : List Nat), ids.Nodup ∧
      versionedVals bs c = (ids.filterMap bs.get?).foldl applyDelta {} ∧
      (∀ (n x : Nat) (b : Block), Path bs c x n → bs.get? x = some b → x ∈ ids ∧ ∀ l ∈ b.links, l ∈ ids) ∧
      (∀ x ∈ ids, ∃ q qb, bs.get? q = some qb ∧ Anc bs c q ∧ LReach bs q x) :=
  versionedVals_exact_sound bs c

/-- **A document queried at a commit shows exactly the state of that commit.** For every store passing `wfCheck3`
    (evaluated by `drv crdt` on the stores of the run) and every stored commit `c`: the values the versioned read
    computes are the values of a replica that started empty and was delivered `c` — which, by C02, has merged `c`, its
    ancestors and what they link, each once, and nothing else; and by C01 any replica that has merged exactly these
    commits shows the same. -/
theorem read_at_commit_is_the_state_of_that_commit (cx : Ctx) (hwf : wfCheck3 cx.blocks = true)
    (hknown : ∀ l, (cx.blocks.get? l).isSome = true → cx.known l = true)
    (c : Block) (hc : cx.blocks.get? c.id = some c) (hck : c.kind = .comp) :
    versionedVals cx.blocks c.id = ((mergeDoc cx {} c).doc c.doc).vals :=
  versioned_eq_delivered cx (wfCheck3_sound cx.blocks hwf) hknown c hc hck

/-- **the read at the commit a replica stands at is what the replica shows now.** A replica starts empty and is
    delivered any stored commits in any order; if what it has merged of a document is what a delivery of `c` alone
    merges (its heads reach exactly the ancestors-or-self of `c`: `c` is its latest commit), then the versioned read at
    `c` and the ordinary read of the document agree on every value. Time travel to "now" is the identity — the two
    fetchers, which share no code, must agree there. -/
theorem read_at_the_current_commit_is_the_current_state (cx : Ctx) (hwf : wfCheck3 cx.blocks = true)
    (hknown : ∀ l, (cx.blocks.get? l).isSome = true → cx.known l = true) (cs : List Block)
    (h : ∀ c ∈ cs, cx.blocks.get? c.id = some c ∧ c.kind = .comp)
    (c : Block) (hc : cx.blocks.get? c.id = some c) (hck : c.kind = .comp)
    (same : ∀ t, Reach cx.blocks ((cs.foldl (mergeDoc cx) {}).doc c.doc).heads t ↔
      Reach cx.blocks ((mergeDoc cx {} c).doc c.doc).heads t) :
    versionedVals cx.blocks c.id = ((cs.foldl (mergeDoc cx) {}).doc c.doc).vals := by
  rw [read_at_commit_is_the_state_of_that_commit cx hwf hknown c hc hck]
  have := Props.C01.same_commits_same_document cx hwf hknown c.doc cs [c] h
    (fun b hb => by rw [List.mem_singleton.mp hb]; exact ⟨hc, hck⟩) (by simpa using same)
  simpa using this.symm

/-- hence a counter read at a commit is the sum of the replayed increments, one term per block -/
theorem counter_at_commit (bs : Blocks) (c : Nat) (f : String) :
    ∃ (ids : List Nat), ids.Nodup ∧
      ((versionedVals bs c).ctr f).getD 0 = ((ids.filterMap bs.get?).map (ctrOf f)).sum := by
  obtain ⟨ids, hn, h⟩ := versionedVals_is_fold_once bs c
  refine ⟨ids, hn, ?_⟩
  rw [h, foldl_ctr]
  simp

/-- a document read at a commit is deleted exactly when a replayed block deletes it -/
theorem deleted_at_commit (bs : Blocks) (c : Nat) :
    ∃ (ids : List Nat), ids.Nodup ∧
      ((versionedVals bs c).marker = some true ↔ ∃ b ∈ ids.filterMap bs.get?, isDelete b = true) := by
  obtain ⟨ids, hn, h⟩ := versionedVals_is_fold_once bs c
  refine ⟨ids, hn, ?_⟩
  rw [h, foldl_marker]
  simp

/-- replaying the same blocks in any other order gives the same read (the replay order of the queue,
    which the code fixes by height, is immaterial for the result) -/
theorem replay_order_free (l₁ l₂ : List Block) (p : l₁.Perm l₂) :
    l₁.foldl applyDelta {} = l₂.foldl applyDelta {} := applyAll_perm {} l₁ l₂ p

/-! non-vacuity: the four-update counter chain `+1,+2,+3,+4` (composites 1,3,5,7; field blocks 2,4,6,8)
    reads 1, 3, 6, 10 at its four commits (the unrepaired fetcher read 1, 5, 15, 35) -/
def chain : Blocks := [
  ⟨1, .comp, "d", 1, [], [2], .comp false⟩, ⟨2, .field "points", "d", 1, [], [], .ctr 1⟩,
  ⟨3, .comp, "d", 2, [1], [4], .comp false⟩, ⟨4, .field "points", "d", 2, [2], [], .ctr 2⟩,
  ⟨5, .comp, "d", 3, [3], [6], .comp false⟩, ⟨6, .field "points", "d", 3, [4], [], .ctr 3⟩,
  ⟨7, .comp, "d", 4, [5], [8], .comp false⟩, ⟨8, .field "points", "d", 4, [6], [], .ctr 4⟩]

example : [1, 3, 5, 7].map (fun c => (versionedVals chain c).ctr "points") = [some 1, some 3, some 6, some 10] := by
  decide

end Defra.Props.C03
