import DefraModel.Restart

/-!
# C14 — a node restarted on its store is indistinguishable from one that never stopped

For the persisted-state / cache model (`DefraModel/Restart.lean`) and every history of operations:

* `run_coherent` — after every history the in-memory state is exactly what start-up would rebuild from the store;
* `open_on_store_copy_is_the_running_node` — a node opened on the store contents as of any completed operation is in
  the state of the running node;
* `restart_invisible` — a restart anywhere in a history changes nothing: the node state (store and memory, hence
  every later observation and the outcome of every later operation) equals that of the history without it;
  `restarts_invisible` — the same for any number of restarts;
* `collection_ids_fresh`, `index_ids_never_reused` — identifiers come from counters that only grow and survive
  restarts: a collection created later gets a greater identifier, and an index created on a collection later —
  whatever was dropped or restarted in between — gets a greater identifier than any created before.
-/
namespace Defra.Restart

theorem load_persist (m : Cache) : load (persist m) = m := rfl

theorem step_coherent (n : Node) (op : Op) (h : Coherent n) : Coherent (step n op) := by
  cases op <;> first
    | (simp only [step, Coherent, restart]; done)
    | (simp only [step, Coherent]; exact (load_persist _).symm)
    | exact h

theorem run_coherent (ops : List Op) : Coherent (run ops) := by
  unfold run
  have h0 : Coherent ({} : Node) := rfl
  generalize ({} : Node) = n at h0
  induction ops generalizing n with
  | nil => exact h0
  | cons op t ih => exact ih _ (step_coherent n op h0)

/-- **Opening the store contents as of any completed operation.** After every history, what start-up rebuilds from
    the store is exactly the in-memory state of the running node — so a second node opened on a copy of the store taken
    after any completed operation is in the state of the node that keeps running (the `crashcopy` operation of the
    engine compares exactly this on the implementation). -/
theorem open_on_store_copy_is_the_running_node (ops : List Op) : load (run ops).store = (run ops).mem :=
  (run_coherent ops).symm

/-- on a coherent node a restart is the identity -/
theorem restart_noop (n : Node) (h : Coherent n) : step n .restart = n := by
  unfold Coherent at h
  simp only [step, restart]
  cases n with
  | mk s m => simp only at h ⊢; rw [h]

theorem foldl_step_append (n : Node) (a b : List Op) : (a ++ b).foldl step n = b.foldl step (a.foldl step n) :=
  List.foldl_append

/-- **A restart is invisible.** -/
theorem restart_invisible (before after : List Op) : run (before ++ [.restart] ++ after) = run (before ++ after) := by
  have h1 : run (before ++ [.restart]) = run before := by
    unfold run
    rw [foldl_step_append]
    exact restart_noop _ (run_coherent before)
  unfold run at *
  rw [foldl_step_append, h1, ← foldl_step_append]

def notRestart : Op → Bool
  | .restart => false
  | _ => true

/-- any number of restarts at any places -/
theorem restarts_invisible (ops : List Op) : run ops = run (ops.filter notRestart) := by
  unfold run
  have h0 : Coherent ({} : Node) := rfl
  generalize ({} : Node) = n at h0
  induction ops generalizing n with
  | nil => rfl
  | cons op t ih =>
    cases op with
    | restart =>
      simp only [List.foldl_cons, List.filter_cons, notRestart, Bool.false_eq_true, if_false]
      rw [restart_noop n h0]
      exact ih n h0
    | _ =>
      simp only [List.foldl_cons, List.filter_cons, notRestart, if_true]
      exact ih _ (step_coherent n _ h0)

/-! ### identifiers -/

def findCol (n : Node) (col : String) : Option Col := n.mem.cols.find? (·.name == col)

def nextIndexOf (n : Node) (col : String) : Nat := ((findCol n col).map (·.nextIndex)).getD 0

theorem find_updCol (cols : List Col) (name col : String) (f : Col → Col) (hf : ∀ c, (f c).name = c.name) :
    (updCol cols name f).find? (·.name == col) =
      (cols.find? (·.name == col)).map (fun c => if c.name == name then f c else c) := by
  unfold updCol
  induction cols with
  | nil => rfl
  | cons x t ih =>
    simp only [List.map_cons, List.find?_cons]
    have hn : (if x.name == name then f x else x).name = x.name := by split <;> simp [hf]
    rw [hn]
    cases hx : (x.name == col) with
    | true => simp
    | false => simpa using ih

theorem addIndexF_name (col field : String) (c : Col) : (addIndexF col field c).name = c.name := rfl

theorem dropIndexF_name (k : Nat) (c : Col) : (dropIndexF k c).name = c.name := by
  unfold dropIndexF; simp only; split <;> rfl

theorem addFieldF_name (f : String) (c : Col) : (addFieldF f c).name = c.name := by
  unfold addFieldF; split <;> rfl

theorem dropIndexF_next (k : Nat) (c : Col) : (dropIndexF k c).nextIndex = c.nextIndex := by
  unfold dropIndexF; simp only; split <;> rfl

theorem addFieldF_next (f : String) (c : Col) : (addFieldF f c).nextIndex = c.nextIndex := by
  unfold addFieldF; split <;> rfl

theorem find_append_old (cols : List Col) (c' : Col) (col : String) (c : Col)
    (h : cols.find? (·.name == col) = some c) : (cols ++ [c']).find? (·.name == col) = some c := by
  rw [List.find?_append, h]; rfl

/-- the collection identifier counter never decreases, whatever the operation -/
theorem nextCol_mono (n : Node) (h : Coherent n) (op : Op) : n.mem.nextCol ≤ (step n op).mem.nextCol := by
  cases op with
  | restart => rw [restart_noop n h]; exact Nat.le_refl _
  | addCol name fields indexed =>
    simp only [step, applyMem]
    split
    · exact Nat.le_refl _
    · exact Nat.le_succ _
  | p2pAdd c => simp only [step, applyMem]; split <;> exact Nat.le_refl _
  | repSet t c => simp only [step, applyMem]; split <;> exact Nat.le_refl _
  | _ => exact Nat.le_refl _

/-- a collection created by `addCol` gets the counter's value, and the counter moves past it -/
theorem collection_ids_fresh (n : Node) (name : String) (fields indexed : List String)
    (hnew : n.mem.cols.any (·.name == name) = false) :
    (findCol (step n (.addCol name fields indexed)) name).map (·.shortId) = some n.mem.nextCol ∧
    (step n (.addCol name fields indexed)).mem.nextCol = n.mem.nextCol + 1 := by
  simp only [step, applyMem, hnew, Bool.false_eq_true, if_false, findCol]
  refine ⟨?_, trivial⟩
  rw [List.find?_append]
  have : n.mem.cols.find? (·.name == name) = none := by
    rw [List.find?_eq_none]
    intro c hc
    have := List.any_eq_false.mp hnew c hc
    simpa using this
  rw [this]
  simp [mkCol]

/-- whatever the operation, an existing collection's index counter never decreases -/
theorem nextIndex_mono (n : Node) (h : Coherent n) (op : Op) (col : String) (c : Col) (hc : findCol n col = some c) :
    ∃ c', findCol (step n op) col = some c' ∧ c.nextIndex ≤ c'.nextIndex := by
  unfold findCol at *
  cases op with
  | restart => rw [restart_noop n h]; exact ⟨c, hc, Nat.le_refl _⟩
  | addCol name fields indexed =>
    simp only [step, applyMem]
    split
    · exact ⟨c, hc, Nat.le_refl _⟩
    · exact ⟨c, find_append_old _ _ _ _ hc, Nat.le_refl _⟩
  | createIndex name field =>
    simp only [step, applyMem]
    rw [find_updCol _ _ _ (addIndexF name field) (addIndexF_name name field), hc]
    simp only [Option.map_some]
    refine ⟨_, rfl, ?_⟩
    split
    · exact Nat.le_succ _
    · exact Nat.le_refl _
  | dropIndex name k =>
    simp only [step, applyMem]
    rw [find_updCol _ _ _ (dropIndexF k) (dropIndexF_name k), hc]
    simp only [Option.map_some]
    refine ⟨_, rfl, ?_⟩
    split
    · rw [dropIndexF_next]; exact Nat.le_refl _
    · exact Nat.le_refl _
  | addField name field =>
    simp only [step, applyMem]
    rw [find_updCol _ _ _ (addFieldF field) (addFieldF_name field), hc]
    simp only [Option.map_some]
    refine ⟨_, rfl, ?_⟩
    split
    · rw [addFieldF_next]; exact Nat.le_refl _
    · exact Nat.le_refl _
  | p2pAdd name => simp only [step, applyMem]; split <;> exact ⟨c, hc, Nat.le_refl _⟩
  | p2pRemove name => exact ⟨c, hc, Nat.le_refl _⟩
  | repSet t name => simp only [step, applyMem]; split <;> exact ⟨c, hc, Nat.le_refl _⟩
  | repDel t name => exact ⟨c, hc, Nat.le_refl _⟩

theorem nextIndex_mono_run (n : Node) (h : Coherent n) (ops : List Op) (col : String) (c : Col)
    (hc : findCol n col = some c) :
    ∃ c', findCol (ops.foldl step n) col = some c' ∧ c.nextIndex ≤ c'.nextIndex := by
  induction ops generalizing n c with
  | nil => exact ⟨c, hc, Nat.le_refl _⟩
  | cons op t ih =>
    obtain ⟨c1, hc1, hle1⟩ := nextIndex_mono n h op col c hc
    obtain ⟨c2, hc2, hle2⟩ := ih (step n op) (step_coherent n op h) c1 hc1
    exact ⟨c2, hc2, Nat.le_trans hle1 hle2⟩

/-- creating an index issues the counter's value and moves the counter past it -/
theorem createIndex_issues (n : Node) (col field : String) (c : Col) (hc : findCol n col = some c) :
    ∃ c', findCol (step n (.createIndex col field)) col = some c' ∧ c'.nextIndex = c.nextIndex + 1 ∧
      (c'.indexes.getLast?).map (·.id) = some c.nextIndex := by
  unfold findCol at *
  simp only [step, applyMem]
  rw [find_updCol _ _ _ (addIndexF col field) (addIndexF_name col field), hc]
  have hn : (c.name == col) = true := by
    have := List.find?_some hc
    simpa using this
  simp only [Option.map_some, hn, if_true]
  exact ⟨_, rfl, rfl, by simp [addIndexF]⟩

/-- **No identifier reuse.** An index created on a collection after any further history — drops, other creates,
    restarts — gets an identifier greater than one created before. -/
theorem index_ids_never_reused (before between : List Op) (col f : String) (c : Col)
    (hc : findCol (run before) col = some c) :
    ∃ c1 c2, findCol (run (before ++ [.createIndex col f])) col = some c1 ∧
      findCol (run (before ++ [.createIndex col f] ++ between)) col = some c2 ∧
      (c1.indexes.getLast?).map (·.id) = some c.nextIndex ∧ c.nextIndex < c2.nextIndex := by
  have hrun1 : run (before ++ [.createIndex col f]) = step (run before) (.createIndex col f) := by
    unfold run; rw [foldl_step_append]; rfl
  obtain ⟨c1, hc1, hn1, hid1⟩ := createIndex_issues (run before) col f c hc
  have hcoh : Coherent (step (run before) (.createIndex col f)) := step_coherent _ _ (run_coherent before)
  obtain ⟨c2, hc2, hle⟩ := nextIndex_mono_run _ hcoh between col c1 hc1
  refine ⟨c1, c2, by rw [hrun1]; exact hc1, ?_, hid1, by omega⟩
  have : run (before ++ [.createIndex col f] ++ between) = between.foldl step (step (run before) (.createIndex col f)) := by
    unfold run; rw [foldl_step_append, foldl_step_append]; rfl
  rw [this]; exact hc2

/-! ### non-vacuity -/

example :
    let h := [Op.addCol "K3" ["a", "b"] ["a"], .createIndex "K3" "a", .dropIndex "K3" 1, .restart, .createIndex "K3" "a", .addCol "K1" ["n"] []]
    ((run h).mem.cols.map (fun c => (c.name, c.shortId, c.indexes.map (fun i => (i.name, i.id))))) =
      [("K3", 1, [("K3_a_ASC", 1), ("K3_a_ASC_2", 3)]), ("K1", 2, [])] ∧ run h = run (h.filter notRestart) := by
  decide

end Defra.Restart
