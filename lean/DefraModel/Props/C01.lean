/-
C01 — Replicas that have seen the same commits show the same documents.
Theorems about the model of DefraModel/Crdt/Model.lean (mirror of the repaired merge path).
What is proved here: the visible state of a document is independent of the ORDER in which the
commits of a set are applied (given each is applied exactly once — that half is C02), the reported
head set is determined by the SET of merged commits, and ties are broken deterministically.
The walk itself is tied to this algebra at the composite level by `same_merged_set_after_same_delivery`
(from the end-to-end theorem of C02: a merge turns the merged set into the old one plus the delivered commit and
its ancestors); the field level is tied by the per-step comparison mirror = canon(merged set) = implementation
that `drv crdt` and the harness perform on every delivery (see `convergence_partial` below).
-/
import DefraModel.Proofs.CrdtFolds
import DefraModel.Proofs.CrdtHeads
import DefraModel.Proofs.CrdtMergeDocRefine
import DefraModel.Props.C02
import DefraModel.Proofs.CrdtConverge
namespace Defra.Props.C01
open Defra Defra.Crdt

/-- applying two commits' deltas in either order gives the same visible state, for every pair of
    blocks of every kind (register incl. null and equal-height ties, counters, delete) -/
theorem two_deltas_commute (s : Vals) (a b : Block) :
    applyDelta (applyDelta s a) b = applyDelta (applyDelta s b) a := applyDelta_comm s a b

/-- **convergence (values)**: two replicas that start from the same state and apply the same commits,
    each exactly once, in ANY two orders end in the same visible state -/
theorem convergence_partial (s : Vals) (order₁ order₂ : List Block) (same : order₁.Perm order₂) :
    order₁.foldl applyDelta s = order₂.foldl applyDelta s := applyAll_perm s order₁ order₂ same

/-- the same, phrased with sets: duplicate-free delivery lists with the same members -/
theorem convergence_of_same_set (s : Vals) (l₁ l₂ : List Nat) (blk : Nat → Block)
    (d₁ : l₁.Nodup) (d₂ : l₂.Nodup) (same : ∀ c, c ∈ l₁ ↔ c ∈ l₂) :
    (l₁.map blk).foldl applyDelta s = (l₂.map blk).foldl applyDelta s :=
  applyAll_perm s _ _ (((List.perm_ext_iff_of_nodup d₁ d₂).mpr same).map blk)

/-- **convergence (heads)**: the head set is a function of the set of merged commits — two head lists
    that are both "the childless merged commits" of the same set have the same members -/
theorem heads_determined (par : Nat → Nat → Prop) (S : Nat → Prop) (h₁ h₂ : List Nat)
    (m₁ : HeadsAreMaximal par S h₁) (m₂ : HeadsAreMaximal par S h₂) (x : Nat) : x ∈ h₁ ↔ x ∈ h₂ := by
  rw [m₁ x, m₂ x]

/-- equal-height ties are decided by the values alone, whichever arrives first -/
theorem tie_deterministic (a b : Nat × Bytes) : lwwMax a b = lwwMax b a := lwwMax_comm a b

/-- the register merge the code performs IS the maximum in (height, bytes) order -/
theorem register_merge_is_max (cur : Nat × Bytes) (p : Nat) (v : Bytes) :
    lwwMerge (some cur) p v = lwwMax cur (p, v) := lwwMerge_some cur p v

/-- floating-point counters cannot satisfy the property in general: with ANY addition that is not
    associative-commutative on some triple, two delivery orders of the same two commits differ.
    (DefraDB's Float pncounter uses IEEE addition; known finding `float-counter-nonassoc`.) -/
theorem nonassoc_diverges {F : Type} (fadd : F → F → F) (a x y : F)
    (h : fadd (fadd a x) y ≠ fadd (fadd a y) x) :
    [x, y].foldl fadd a ≠ [y, x].foldl fadd a := by simpa using h

/-! non-vacuity: a concurrent tie with a null on one side, a counter and a delete -/
def bNull : Block := ⟨5, .field "name", "d", 2, [3], [], .lww cborNil⟩
def bStr : Block := ⟨6, .field "name", "d", 2, [3], [], .lww [0x61, 0x62]⟩
def bCtr : Block := ⟨7, .field "points", "d", 2, [4], [], .ctr 10⟩
def bDel : Block := ⟨8, .comp, "d", 3, [1], [], .comp true⟩

example : ([bNull, bStr, bCtr, bDel].foldl applyDelta {}).lww "name" = some (2, cborNil) := by decide
example : ([bDel, bCtr, bStr, bNull].foldl applyDelta {}).lww "name" = some (2, cborNil) := by decide
example : [bNull, bStr, bCtr, bDel].Perm [bDel, bCtr, bStr, bNull] := by decide

/-- **The merged set after a delivery depends only on the merged set before and on the commit.** Two replicas whose
    document has the same merged set (their heads may be listed differently) and that merge the same commit have the
    same merged set afterwards — and by `heads_determined` then report the same heads. For every well-formed store. -/
theorem same_merged_set_after_same_delivery (cx : Ctx) (hwf : wfCheck cx.blocks = true)
    (hknown : ∀ l, (cx.blocks.get? l).isSome = true → cx.known l = true)
    (r₁ r₂ : Replica) (c : Block) (hc : cx.blocks.get? c.id = some c) (hck : c.kind = .comp)
    (h₁ : headsCheck cx.blocks (r₁.doc c.doc).heads = true) (h₂ : headsCheck cx.blocks (r₂.doc c.doc).heads = true)
    (same : ∀ t, Reach cx.blocks (r₁.doc c.doc).heads t ↔ Reach cx.blocks (r₂.doc c.doc).heads t) (t : Nat) :
    Reach cx.blocks ((mergeDoc cx r₁ c).doc c.doc).heads t ↔ Reach cx.blocks ((mergeDoc cx r₂ c).doc c.doc).heads t := by
  obtain ⟨_, _, _, _, _, a, _⟩ :=
    Props.C02.merge_applies_exactly_the_unmerged_ancestors_once cx hwf hknown r₁ c hc hck h₁
  obtain ⟨_, _, _, _, _, b, _⟩ :=
    Props.C02.merge_applies_exactly_the_unmerged_ancestors_once cx hwf hknown r₂ c hc hck h₂
  rw [a t, b t, same t]

/-- **Convergence, every pair of histories.** Two replicas start empty and are delivered stored commits — any commits,
    in any orders, any number of times, in any grouping (a delivered commit brings its not yet merged ancestors with
    it). If in the end they have merged the same commits of a document, they show the same values for it: delete
    marker, every register, every counter. For every store passing `wfCheck3` (evaluated on the stores of the run). -/
theorem same_commits_same_document (cx : Ctx) (hwf : wfCheck3 cx.blocks = true)
    (hknown : ∀ l, (cx.blocks.get? l).isSome = true → cx.known l = true) (d : String)
    (cs₁ cs₂ : List Block)
    (h₁ : ∀ c ∈ cs₁, cx.blocks.get? c.id = some c ∧ c.kind = .comp)
    (h₂ : ∀ c ∈ cs₂, cx.blocks.get? c.id = some c ∧ c.kind = .comp)
    (same : ∀ t, Reach cx.blocks ((cs₁.foldl (mergeDoc cx) {}).doc d).heads t ↔
      Reach cx.blocks ((cs₂.foldl (mergeDoc cx) {}).doc d).heads t) :
    ((cs₁.foldl (mergeDoc cx) {}).doc d).vals = ((cs₂.foldl (mergeDoc cx) {}).doc d).vals := by
  have swf := wfCheck3_sound cx.blocks hwf
  have e : DocInv cx.blocks (({} : Replica).doc d) := docInv_empty cx.blocks
  exact same_commits_same_values cx.blocks swf _ _
    (deliveries_docInv cx swf hknown d cs₁ {} h₁ e) (deliveries_docInv cx swf hknown d cs₂ {} h₂ e) same

/-- a local write — a new commit on top of the current heads — is the delivery of that commit (`drv crdt` replays local
    writes with `processBlock`): the histories of `same_commits_same_document` cover local writes too -/
theorem local_write_is_a_delivery (cx : Ctx) (r : Replica) (c : Block) (hc : cx.blocks.get? c.id = some c)
    (hn : isMerged cx.blocks (r.doc c.doc).heads c.id c.height = false)
    (hp : ∀ p ∈ c.parents, ∀ pb, cx.blocks.get? p = some pb →
      isMerged cx.blocks (r.doc c.doc).heads p pb.height = true) :
    mergeDoc cx r c = processBlock cx 4 r c :=
  mergeDoc_of_parents_merged cx r c hc hn hp

/-- after every history of deliveries the values are accounted for: the deltas of the merged blocks, each once -/
theorem values_are_the_merged_deltas_once (cx : Ctx) (hwf : wfCheck3 cx.blocks = true)
    (hknown : ∀ l, (cx.blocks.get? l).isSome = true → cx.known l = true) (d : String) (cs : List Block)
    (h : ∀ c ∈ cs, cx.blocks.get? c.id = some c ∧ c.kind = .comp) :
    ∃ l : List Block, (l.map (·.id)).Nodup ∧
      (∀ b, b ∈ l ↔ MergedIn cx.blocks ((cs.foldl (mergeDoc cx) {}).doc d) b) ∧
      ((cs.foldl (mergeDoc cx) {}).doc d).vals = l.foldl applyDelta {} :=
  (deliveries_docInv cx (wfCheck3_sound cx.blocks hwf) hknown d cs {} h (docInv_empty cx.blocks)).2.2.1

/-- **The document as a closed formula of its merged blocks, after every history.** With `l` the merged blocks of the
    document (each once): every counter is the sum of their increments, the document is deleted exactly when one of
    them deletes it, and every register holds a value one of them wrote and none of them exceeds in (height, bytes)
    order. This is `canon`, the specification `drv crdt` compares the implementation with after every step — here
    proved of the model for all histories. -/
theorem document_is_the_closed_form_of_its_merged_blocks (cx : Ctx) (hwf : wfCheck3 cx.blocks = true)
    (hknown : ∀ l, (cx.blocks.get? l).isSome = true → cx.known l = true) (d : String) (cs : List Block)
    (h : ∀ c ∈ cs, cx.blocks.get? c.id = some c ∧ c.kind = .comp) :
    ∃ l : List Block, (l.map (·.id)).Nodup ∧
      (∀ b, b ∈ l ↔ MergedIn cx.blocks ((cs.foldl (mergeDoc cx) {}).doc d) b) ∧
      (∀ f, ((((cs.foldl (mergeDoc cx) {}).doc d).vals).ctr f).getD 0 = (l.map (ctrOf f)).sum) ∧
      ((((cs.foldl (mergeDoc cx) {}).doc d).vals).marker = some true ↔ ∃ b ∈ l, isDelete b = true) ∧
      (∀ f r, (((cs.foldl (mergeDoc cx) {}).doc d).vals).lww f = some r →
        (∃ b ∈ l, lwwOf f b = some r) ∧ ∀ b ∈ l, ∀ x, lwwOf f b = some x → ple x r) := by
  obtain ⟨l, hn, hm, hv⟩ := values_are_the_merged_deltas_once cx hwf hknown d cs h
  refine ⟨l, hn, hm, ?_, ?_, ?_⟩
  · intro f
    rw [hv, foldl_ctr]
    simp
  · rw [hv, foldl_marker]
    simp
  · intro f r hr
    rw [hv] at hr
    exact Props.C02.register_holds_a_latest_write l f r hr

/-- the counter store of C02 delivered in two different ways: head first (the ancestor comes with it) or one by one -/
example :
    let cx : Ctx := ⟨Props.C02.counterStore, fun _ => true⟩
    let c1 : Block := ⟨1, .comp, "d", 1, [], [2], .comp false⟩
    let c3 : Block := ⟨3, .comp, "d", 2, [1], [4], .comp false⟩
    ((([c3].foldl (mergeDoc cx) {}).doc "d").vals.ctr "points") = some 11 ∧
    ((([c1, c3, c1].foldl (mergeDoc cx) {}).doc "d").vals.ctr "points") = some 11 := by decide

end Defra.Props.C01
