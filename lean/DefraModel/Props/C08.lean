/-
C08 — Query results follow the documented filter, order, limit and aggregate semantics.
`evalSpec` is the documented semantics (filter, stable sort by the lexicographic extension of the keys,
offset/limit slice, arithmetic over the listed values); `evalPinned` is what the repository does (its
`docValueLess` lets the FIRST key decide, ties included).  The theorems establish the properties of the
documented semantics for every document list and query, show where the repository's comparator agrees with it
(no ordering, or a single key) and exhibit the disagreement for two keys (known finding
`multi-key-order`: the repair makes six existing tests fail, so it is recorded, not committed).
The no-panic / no-hang clause is exploration (malformed request stream of harness/query), not proof.
-/
import DefraModel.Proofs.QueryOrder
import DefraModel.Proofs.QueryGroup
namespace Defra.Props.C08
open Defra Defra.Query

/-- **filter**: without ordering and limits the result lists exactly the matching documents, in store order -/
theorem filter_exact (f : F) (docs : List Doc) :
    pipeline lessLex { filter := f } docs = docs.filter f.matches := by
  simp [pipeline, limitOffset]

theorem not_complements (f : F) (d : Doc) : (F.not f).matches d = !f.matches d := rfl
theorem and_intersects (a b : F) (d : Doc) : (F.and a b).matches d = (a.matches d && b.matches d) := rfl
theorem or_unites (a b : F) (d : Doc) : (F.or a b).matches d = (a.matches d || b.matches d) := rfl

/-- a filter and its negation partition the collection -/
theorem filter_partition (f : F) (docs : List Doc) (d : Doc) (hd : d ∈ docs) :
    (d ∈ docs.filter f.matches ∧ d ∉ docs.filter (F.not f).matches) ∨
    (d ∉ docs.filter f.matches ∧ d ∈ docs.filter (F.not f).matches) := by
  simp only [List.mem_filter, not_complements]
  cases h : f.matches d <;> simp [hd]

/-- **ordering is a permutation**: sorting neither loses nor duplicates documents -/
theorem order_perm (keys : List OrderKey) (l : List Doc) : (stableSort (lessLex keys) l).Perm l :=
  List.mergeSort_perm l _

/-- **ordering sorts**: in the result no later document is strictly before an earlier one in the
    lexicographic order of the keys (first key decides, ties broken by each following key, nil least,
    DESC reversed) -/
theorem order_sorted (keys : List OrderKey) (l : List Doc) :
    (stableSort (lessLex keys) l).Pairwise (fun a b => leLex keys a b = true) := by
  have := List.pairwise_mergeSort (le := fun a b => !lessLex keys b a)
    (fun a b c h1 h2 => leLex_trans keys a b c h1 h2) (fun a b => leLex_total keys a b) l
  exact this

/-- **ordering is stable**: two documents that the keys do not separate keep their relative order -/
theorem order_stable (keys : List OrderKey) (l : List Doc) (a b : Doc)
    (hab : leLex keys a b = true) (h : [a, b].Sublist l) :
    [a, b].Sublist (stableSort (lessLex keys) l) :=
  List.pair_sublist_mergeSort (le := fun a b => !lessLex keys b a)
    (fun a b c h1 h2 => leLex_trans keys a b c h1 h2) (fun a b => leLex_total keys a b) hab h

/-- the ordering compares by the first key and breaks ties by each following key -/
theorem order_lex (k : OrderKey) (rest : List OrderKey) (a b : Doc) :
    lessLex (k :: rest) a b =
      (if keyCmp k a b = 0 then lessLex rest a b else decide (keyCmp k a b < 0)) := by
  rw [lessLex_iff, lessLex_iff]
  simp only [lexCmp]
  split <;> rfl

/-- with a single ordering key the repository's comparator IS the documented one -/
theorem pinned_single_key_ok (k : OrderKey) (a b : Doc) : lessPinned [k] a b = lessLex [k] a b := by
  simp only [lessPinned, lessLex]
  by_cases h : vCompare (a.get k.field) (b.get k.field) = 0
  · simp [h]
  · have h' : (vCompare (a.get k.field) (b.get k.field) == 0) = false := by simpa using h
    simp [h']

/-- ... and with no key both leave the order alone -/
theorem pinned_no_key_ok (q : Q) (h : q.order = []) (docs : List Doc) : evalPinned q docs = evalSpec q docs := by
  unfold evalPinned evalSpec pipeline
  have : (effective q).order = [] := by unfold effective; cases q.sel <;> simp [h]
  simp [this]

/-- **known finding, proved of the mirror**: with two keys the repository's comparator ignores the second:
    the list `[d1, d2]` is left as it is although the documented order puts `d2` first -/
theorem pinned_order_ignores_second_key :
    let d1 : Doc := ⟨1, [("a", .int 1), ("b", .int 2)]⟩
    let d2 : Doc := ⟨2, [("a", .int 1), ("b", .int 1)]⟩
    let keys : List OrderKey := [⟨"a", false⟩, ⟨"b", false⟩]
    stableSort (lessPinned keys) [d1, d2] = [d1, d2] ∧ lessLex keys d2 d1 = true := by
  intro d1 d2 keys
  refine ⟨?_, by decide⟩
  apply List.mergeSort_of_pairwise
  decide

/-- **limit/offset cut a slice** of the ordered sequence -/
theorem limit_slice (limit offset : Nat) (l : List Doc) :
    limitOffset limit offset l = if limit = 0 then l.drop offset else (l.drop offset).take limit := by
  unfold limitOffset
  by_cases h : limit = 0 <;> simp [h]

theorem limit_is_sublist (limit offset : Nat) (l : List Doc) : (limitOffset limit offset l).Sublist l := by
  rw [limit_slice]
  split
  · exact List.drop_sublist _ _
  · exact (List.take_sublist _ _).trans (List.drop_sublist _ _)

/-- **aggregates are the arithmetic over the listed documents** -/
theorem count_is_length (l : List Doc) : aggregate .count l = .int l.length := rfl

theorem sum_is_fold (f : String) (l : List Doc) (hf : isFloatField f = true) :
    aggregate (.sum f) l = .num8 ((l.filterMap (fun d => (d.get f).num8)).foldl (· + ·) 0) := by
  simp [aggregate, hf]

/-- the maximum is one of the listed values and no listed value exceeds it -/
theorem max_is_bound (vs : List Int) : ∀ (v : Int),
    ((vs.foldl (fun a b => if b > a then b else a) v = v ∨ vs.foldl (fun a b => if b > a then b else a) v ∈ vs) ∧
     v ≤ vs.foldl (fun a b => if b > a then b else a) v ∧
     ∀ x ∈ vs, x ≤ vs.foldl (fun a b => if b > a then b else a) v) := by
  induction vs with
  | nil => intro v; simp
  | cons y ys ih =>
    intro v
    simp only [List.foldl_cons]
    by_cases hy : y > v
    · simp only [hy, if_true]
      obtain ⟨h1, h2, h3⟩ := ih y
      refine ⟨?_, by omega, ?_⟩
      · rcases h1 with h | h
        · exact Or.inr (by rw [h]; simp)
        · exact Or.inr (List.mem_cons_of_mem _ h)
      · intro x hx
        rcases List.mem_cons.mp hx with rfl | hx
        · exact h2
        · exact h3 x hx
    · simp only [hy, if_false]
      obtain ⟨h1, h2, h3⟩ := ih v
      refine ⟨?_, h2, ?_⟩
      · rcases h1 with h | h
        · exact Or.inl h
        · exact Or.inr (List.mem_cons_of_mem _ h)
      · intro x hx
        rcases List.mem_cons.mp hx with rfl | hx
        · omega
        · exact h3 x hx

/-- `_avg` averages the non-nil values of the documents it lists (its list is cut after nil values are dropped) -/
theorem avg_over_non_nil (q : Q) (f : String) (h : q.sel = .avg f) (docs : List Doc) :
    ∀ d ∈ pipeline lessLex (effective q) docs, d.get f ≠ .null := by
  intro d hd
  unfold pipeline at hd
  have hsub : d ∈ docs.filter (effective q).filter.matches := by
    have h1 := (limit_is_sublist (effective q).limit (effective q).offset _).subset hd
    by_cases ho : (effective q).order.isEmpty
    · simpa [ho] using h1
    · simp only [ho, Bool.false_eq_true, if_false] at h1
      exact (order_perm _ _).subset h1
  have hm := (List.mem_filter.mp hsub).2
  unfold effective at hm
  rw [h] at hm
  simp only [F.matches, Bool.and_eq_true, Bool.not_eq_true'] at hm
  intro hnull
  rw [hnull] at hm
  simp [vEq] at hm

/-! ### grouping by several fields (`Query/Group.lean`, compared with the implementation by `qg` lines) -/

/-- **the groups partition the documents**: the groups are the distinct value tuples (each once), every document's
    tuple is a group, the size of a group is the number of documents with that tuple, and the sizes add up to the
    number of documents -/
theorem groups_partition_the_documents (fs : List String) (docs : List Doc) :
    ((groupCounts fs docs).map (·.1)).Nodup ∧
    total (groupCounts fs docs) = docs.length ∧
    (∀ u, groupSize (groupCounts fs docs) u = (docs.filter (fun d => tupleOf fs d = u)).length) ∧
    (∀ k, k ∈ (groupCounts fs docs).map (·.1) ↔ ∃ d ∈ docs, tupleOf fs d = k) := by
  have h := foldl_bump_spec fs docs [] (by simp)
  unfold groupCounts
  obtain ⟨h1, h2, h3, h4⟩ := h
  refine ⟨h1, by simpa [total] using h2, ?_, ?_⟩
  · intro u; simpa [groupSize] using h3 u
  · intro k; simpa using h4 k

/-- the implementation finds a document's group through a key computed from its values: with an injective key the
    groups are those of the specification -/
theorem grouping_through_an_injective_key {κ : Type} [DecidableEq κ] (key : List V → κ)
    (hinj : ∀ a b, key a = key b → a = b) (fs : List String) (docs : List Doc) :
    groupCountsK key fs docs = groupCounts fs docs := groupCountsK_eq key hinj fs docs

/-- the key as it was before the repair 0a88df2 (per field: its index, `_`, the value printed plainly, `_`) is not
    injective, and two different tuples fall into one group; quoting the text (what the repair does) separates them -/
def plainKey (quote : Bool) (t : List V) : List Nat :=
  (t.zipIdx 1).flatMap (fun p =>
    let v := match p.1 with
      | .str s => if quote then [34] ++ s ++ [34] else s
      | .null => [60, 110, 105, 108, 62]
      | .int i => [1000 + i.toNat]
      | .flt n => [2000 + n.toNat]
      | .bool b => [if b then 3001 else 3000]
    [48 + p.2, 95] ++ v ++ [95])

theorem plain_key_merges_two_groups :
    let t1 : List V := [.str [120, 95, 50, 95, 121], .str [122]]     -- ("x_2_y", "z")
    let t2 : List V := [.str [120], .str [121, 95, 50, 95, 122]]     -- ("x", "y_2_z")
    t1 ≠ t2 ∧ plainKey false t1 = plainKey false t2 ∧ plainKey true t1 ≠ plainKey true t2 ∧
    (groupCountsK (plainKey false) ["a", "b"] [⟨1, [("a", t1[0]!), ("b", t1[1]!)]⟩, ⟨2, [("a", t2[0]!), ("b", t2[1]!)]⟩]).length = 1 ∧
    (groupCounts ["a", "b"] [⟨1, [("a", t1[0]!), ("b", t1[1]!)]⟩, ⟨2, [("a", t2[0]!), ("b", t2[1]!)]⟩]).length = 2 := by
  decide

/-! non-vacuity -/
example : (evalSpec { filter := .gt "age" (.int 1), limit := 2, offset := 1, sel := .docs }
    [⟨1, [("age", .int 5)]⟩, ⟨2, [("age", .null)]⟩, ⟨3, [("age", .int 7)]⟩, ⟨4, [("age", .int 2)]⟩]) = .docs [3, 4] := by
  decide
example : leLex [⟨"a", false⟩, ⟨"b", true⟩] ⟨1, [("a", .int 1), ("b", .null)]⟩ ⟨2, [("a", .int 1), ("b", .null)]⟩ = true ∧
    lessLex [⟨"a", false⟩, ⟨"b", true⟩] ⟨3, [("a", .int 1), ("b", .int 4)]⟩ ⟨1, [("a", .int 1), ("b", .null)]⟩ = true := by
  decide

end Defra.Props.C08
