import DefraModel.Conc

/-!
# C16 — concurrent use loses no acknowledged effect

For the model of acknowledged histories (`DefraModel/Conc.lean`):

* `counter_is_sum_of_acknowledged` — whatever order the acknowledged calls are taken in (every schedule is one),
  the counter reads the sum of the increments that reported success plus the merged ones; calls that reported a
  conflict or an error contribute nothing (`rejected_has_no_effect`);
* `counter_order_independent` — two schedules of the same acknowledged calls give the same counters;
* `register_holds_acknowledged_write` — the register holds a value written by a call that reported success (or
  nothing if there is none);
* `created_exists`, `created_exists_unless_deleted`, `rejected_create_absent` — an acknowledged create is in the
  final state unless an acknowledged delete followed; a create that reported a conflict is not;
* `interleaving_same_final_value` — under the shared transaction's mutex, any interleaving of two goroutines'
  writes to different keys leaves every key with what its own goroutine's writes alone would leave.
-/
namespace Defra.Conc

theorem getCounter_apply (s : State) (c : Call) (a : Nat) :
    getCounter (apply s c) a = getCounter s a + contribution a c := by
  unfold getCounter contribution
  cases c with
  | inc a' d o => cases o <;> simp only [apply] <;> (try split) <;> omega
  | mergedInc a' d => simp only [apply]; split <;> omega
  | set a' v o => cases o <;> simp [apply]
  | create l o => cases o <;> simp [apply]
  | delete l o => cases o <;> simp [apply]
  | mergedCreate l => simp [apply]

theorem getCounter_foldl (h : List Call) (s : State) (a : Nat) :
    getCounter (h.foldl apply s) a = getCounter s a + expectedCounter h a := by
  induction h generalizing s with
  | nil => simp [expectedCounter]
  | cons c t ih =>
    simp only [List.foldl_cons]
    rw [ih, getCounter_apply]
    simp only [expectedCounter, List.map_cons, List.sum_cons]
    omega

/-- **Counters end at the sum of the successful increments** (and of the merged ones). -/
theorem counter_is_sum_of_acknowledged (h : List Call) (a : Nat) : getCounter (run h) a = expectedCounter h a := by
  unfold run
  rw [getCounter_foldl]
  simp [getCounter]

theorem sum_perm {l1 l2 : List Int} (hp : l1.Perm l2) : l1.sum = l2.sum := by
  induction hp with
  | nil => rfl
  | cons x _ ih => simp [ih]
  | swap x y l => simp only [List.sum_cons]; omega
  | trans _ _ ih1 ih2 => exact ih1.trans ih2

theorem expectedCounter_perm {h1 h2 : List Call} (hp : h1.Perm h2) (a : Nat) :
    expectedCounter h1 a = expectedCounter h2 a := by
  unfold expectedCounter
  exact sum_perm (hp.map _)

/-- the schedule does not matter: any two orders of the same acknowledged calls give the same counters -/
theorem counter_order_independent {h1 h2 : List Call} (hp : h1.Perm h2) (a : Nat) :
    getCounter (run h1) a = getCounter (run h2) a := by
  rw [counter_is_sum_of_acknowledged, counter_is_sum_of_acknowledged, expectedCounter_perm hp]

/-- which calls reported something other than success -/
def rejected : Call → Bool
  | .inc _ _ o => o != .ok
  | .set _ _ o => o != .ok
  | .create _ o => o != .ok
  | .delete _ o => o != .ok
  | _ => false

/-- a call that reported a conflict or an error changes nothing -/
theorem rejected_has_no_effect (s : State) (c : Call) (hr : rejected c = true) : apply s c = s := by
  cases c with
  | inc a d o => cases o <;> simp_all [apply, rejected]
  | set a v o => cases o <;> simp_all [apply, rejected]
  | create l o => cases o <;> simp_all [apply, rejected]
  | delete l o => cases o <;> simp_all [apply, rejected]
  | mergedInc a d => simp [rejected] at hr
  | mergedCreate l => simp [rejected] at hr

theorem note_apply (s : State) (c : Call) (a : Nat) :
    getNote (apply s c) a = (match written a c with
      | some v => some v
      | none => getNote s a) := by
  unfold getNote written
  cases c with
  | set a' v o =>
    cases o with
    | ok => simp only [apply]; split <;> simp_all
    | conflict => simp [apply]
    | error => simp [apply]
  | inc a' d o => cases o <;> simp [apply]
  | create l o => cases o <;> simp [apply]
  | delete l o => cases o <;> simp [apply]
  | mergedInc a' d => simp [apply]
  | mergedCreate l => simp [apply]

theorem note_foldl (h : List Call) (s : State) (a : Nat) :
    match getNote (h.foldl apply s) a with
    | some v => v ∈ writtenValues h a ∨ getNote s a = some v
    | none => writtenValues h a = [] ∧ getNote s a = none := by
  induction h generalizing s with
  | nil =>
    simp only [List.foldl_nil, writtenValues, List.filterMap_nil]
    cases getNote s a <;> simp
  | cons c t ih =>
    simp only [List.foldl_cons]
    have h1 := ih (apply s c)
    have h2 := note_apply s c a
    have hw : writtenValues (c :: t) a = (written a c).toList ++ writtenValues t a := by
      unfold writtenValues
      simp only [List.filterMap_cons]
      cases written a c <;> simp
    rw [hw]
    cases hres : getNote (t.foldl apply (apply s c)) a with
    | some v =>
      rw [hres] at h1
      simp only at h1 ⊢
      rcases h1 with h1 | h1
      · exact Or.inl (List.mem_append_right _ h1)
      · rw [h2] at h1
        cases hwc : written a c with
        | some w =>
          rw [hwc] at h1
          simp only [Option.some.injEq] at h1
          subst h1
          exact Or.inl (by simp)
        | none =>
          rw [hwc] at h1
          exact Or.inr h1
    | none =>
      rw [hres] at h1
      simp only at h1 ⊢
      obtain ⟨h1a, h1b⟩ := h1
      rw [h2] at h1b
      cases hwc : written a c with
      | some w => rw [hwc] at h1b; cases h1b
      | none =>
        rw [hwc] at h1b
        simp [h1a, h1b]

/-- **The register holds a value an acknowledged write wrote** (or nothing when there was none). -/
theorem register_holds_acknowledged_write (h : List Call) (a : Nat) :
    match getNote (run h) a with
    | some v => v ∈ writtenValues h a
    | none => writtenValues h a = [] := by
  have := note_foldl h {} a
  unfold run
  cases hres : getNote (h.foldl apply {}) a with
  | some v =>
    rw [hres] at this
    simp only at this ⊢
    rcases this with h1 | h1
    · exact h1
    · simp [getNote] at h1
  | none =>
    rw [hres] at this
    exact this.1

/-- a create that reported a conflict leaves the item set as it was -/
theorem rejected_create_absent (s : State) (l : String) (o : Outcome) (ho : o ≠ .ok) :
    (apply s (.create l o)).items = s.items := by
  cases o <;> simp_all [apply]

/-- an acknowledged create puts the item into the state -/
theorem created_exists (s : State) (l : String) : l ∈ (apply s (.create l .ok)).items := by
  simp only [apply]
  split
  · rename_i h; simpa using h
  · exact List.mem_append_right _ (List.mem_singleton.mpr rfl)

/-- later calls other than an acknowledged delete of it keep it there -/
theorem created_exists_unless_deleted (s : State) (l : String) (hl : l ∈ s.items) (c : Call)
    (hnd : c ≠ .delete l .ok) : l ∈ (apply s c).items := by
  cases c with
  | inc a d o => cases o <;> simpa [apply] using hl
  | set a v o => cases o <;> simpa [apply] using hl
  | mergedInc a d => simpa [apply] using hl
  | create l' o =>
    cases o with
    | ok =>
      simp only [apply]
      split
      · exact hl
      · exact List.mem_append_left _ hl
    | conflict => simpa [apply] using hl
    | error => simpa [apply] using hl
  | mergedCreate l' =>
    simp only [apply]
    split
    · exact hl
    · exact List.mem_append_left _ hl
  | delete l' o =>
    cases o with
    | ok =>
      simp only [apply, List.mem_filter]
      refine ⟨hl, ?_⟩
      have : l' ≠ l := by intro h; apply hnd; rw [h]
      simp [Ne.symm this]
    | conflict => simpa [apply] using hl
    | error => simpa [apply] using hl

/-! ### the shared transaction -/

theorem get_put_same (m : List (String × String)) (w : Write) : get (put m w) w.key = some w.value := by
  simp [get, put]

theorem find_filter_ne (m : List (String × String)) (k' k : String) (h : k' ≠ k) :
    (m.filter (fun p => p.1 != k')).find? (fun p => p.1 == k) = m.find? (fun p => p.1 == k) := by
  induction m with
  | nil => rfl
  | cons x t ih =>
    simp only [List.filter_cons]
    by_cases hx : (x.1 != k') = true
    · simp only [hx, if_true, List.find?_cons]
      cases (x.1 == k) with
      | true => rfl
      | false => exact ih
    · have hxw : x.1 = k' := by simpa using hx
      have hxk : (x.1 == k) = false := by rw [hxw]; simp [h]
      simp only [hx, Bool.false_eq_true, if_false, List.find?_cons, hxk]
      exact ih

theorem get_put_other (m : List (String × String)) (w : Write) (k : String) (h : w.key ≠ k) :
    get (put m w) k = get m k := by
  unfold get put
  have h1 : ((w.key, w.value).1 == k) = false := by simp [h]
  rw [List.find?_cons_of_neg (by simp [h1]), find_filter_ne m w.key k h]

/-- what is read at `k` after writes to `k` only does not depend on what was there at other keys -/
theorem get_foldl_same_key (l : List Write) (m1 m2 : List (String × String)) (k : String)
    (hl : ∀ x ∈ l, x.key = k) (h : get m1 k = get m2 k) : get (l.foldl put m1) k = get (l.foldl put m2) k := by
  induction l generalizing m1 m2 with
  | nil => exact h
  | cons x l ih =>
    simp only [List.foldl_cons]
    apply ih _ _ (fun y hy => hl y (List.mem_cons_of_mem _ hy))
    have hxk := hl x List.mem_cons_self
    rw [← hxk, get_put_same, get_put_same]

/-- what is read at `k` after a sequence of writes depends only on the writes to `k` -/
theorem get_foldl_filter (ws : List Write) (m : List (String × String)) (k : String) :
    get (ws.foldl put m) k = get ((ws.filter (fun w => w.key == k)).foldl put m) k := by
  induction ws generalizing m with
  | nil => rfl
  | cons w t ih =>
    simp only [List.foldl_cons, List.filter_cons]
    by_cases hk : (w.key == k) = true
    · simp only [hk, if_true, List.foldl_cons]; exact ih _
    · simp only [hk, Bool.false_eq_true, if_false]
      rw [ih]
      have hne : w.key ≠ k := by simpa using hk
      apply get_foldl_same_key
      · intro x hx; simpa using (List.mem_filter.mp hx).2
      · exact get_put_other m w k hne

/-- an interleaving keeps each goroutine's accesses in their own order -/
theorem interleaving_filter (xs ys : List Write) (p : Write → Bool)
    (hx : ∀ w ∈ xs, p w = true) (hy : ∀ w ∈ ys, p w = false) :
    ∀ zs ∈ interleavings xs ys, zs.filter p = xs := by
  induction xs generalizing ys with
  | nil =>
    intro zs hz
    cases ys with
    | nil => simp [interleavings] at hz; subst hz; rfl
    | cons y t =>
      simp only [interleavings, List.mem_singleton] at hz
      subst hz
      exact List.filter_eq_nil_iff.mpr (fun w hw => by simp [hy w hw])
  | cons x t ihx =>
    induction ys with
    | nil =>
      intro zs hz
      simp only [interleavings, List.mem_singleton] at hz
      subst hz
      exact List.filter_eq_self.mpr hx
    | cons y u ihy =>
      intro zs hz
      simp only [interleavings, List.mem_append, List.mem_map] at hz
      rcases hz with ⟨r, hr, rfl⟩ | ⟨r, hr, rfl⟩
      · have := ihx (y :: u) (fun w hw => hx w (List.mem_cons_of_mem _ hw)) hy r hr
        simp [List.filter_cons, hx x List.mem_cons_self, this]
      · have := ihy (fun w hw => hy w (List.mem_cons_of_mem _ hw)) r hr
        simp [List.filter_cons, hy y List.mem_cons_self, this]

theorem interleaving_mem (xs ys zs : List Write) (hz : zs ∈ interleavings xs ys) :
    ∀ w ∈ zs, w ∈ xs ∨ w ∈ ys := by
  induction xs generalizing ys zs with
  | nil =>
    intro w hw
    cases ys with
    | nil => simp [interleavings] at hz; subst hz; cases hw
    | cons y t => simp only [interleavings, List.mem_singleton] at hz; subst hz; exact Or.inr hw
  | cons x t ihx =>
    induction ys generalizing zs with
    | nil => intro w hw; simp only [interleavings, List.mem_singleton] at hz; subst hz; exact Or.inl hw
    | cons y u ihy =>
      intro w hw
      simp only [interleavings, List.mem_append, List.mem_map] at hz
      rcases hz with ⟨r, hr, rfl⟩ | ⟨r, hr, rfl⟩
      · rcases List.mem_cons.mp hw with rfl | hw
        · exact Or.inl List.mem_cons_self
        · rcases ihx (y :: u) r hr w hw with h | h
          · exact Or.inl (List.mem_cons_of_mem _ h)
          · exact Or.inr h
      · rcases List.mem_cons.mp hw with rfl | hw
        · exact Or.inr List.mem_cons_self
        · rcases ihy r hr w hw with h | h
          · exact Or.inl h
          · exact Or.inr (List.mem_cons_of_mem _ h)

/-- **Shared transaction.** Two goroutines write disjoint key sets through the same transaction, every access under
    its mutex: whatever the interleaving, each key ends with what its own goroutine's writes alone would leave. -/
theorem interleaving_same_final_value (xs ys : List Write) (k : String)
    (hdisj : ∀ x ∈ xs, ∀ y ∈ ys, x.key ≠ y.key) (hk : ∃ x ∈ xs, x.key = k)
    (zs : List Write) (hz : zs ∈ interleavings xs ys) :
    get (zs.foldl put []) k = get (xs.foldl put []) k := by
  obtain ⟨x0, hx0, hx0k⟩ := hk
  have hyk : ∀ y ∈ ys, y.key ≠ k := by
    intro y hy h; exact hdisj x0 hx0 y hy (by rw [hx0k, h])
  rw [get_foldl_filter zs, get_foldl_filter xs]
  congr 2
  have hmem := interleaving_mem xs ys zs hz
  let p : Write → Bool := fun w => xs.any (fun x => x.key == w.key)
  have hpx : ∀ w ∈ xs, p w = true := by
    intro w hw; exact List.any_eq_true.mpr ⟨w, hw, by simp⟩
  have hpy : ∀ w ∈ ys, p w = false := by
    intro w hw
    apply List.any_eq_false.mpr
    intro x hx
    simpa using hdisj x hx w hw
  have hf := interleaving_filter xs ys p hpx hpy zs hz
  have : zs.filter (fun w => w.key == k) = (zs.filter p).filter (fun w => w.key == k) := by
    rw [List.filter_filter]
    apply List.filter_congr
    intro w hw
    by_cases hwk : (w.key == k) = true
    · have hwk' : w.key = k := by simpa using hwk
      rcases hmem w hw with h | h
      · simp [hwk, hpx w h]
      · exact absurd hwk' (hyk w h)
    · simp [hwk]
  rw [this, hf]

/-! ### non-vacuity -/

example : getCounter (run [.inc 0 3 .ok, .inc 0 5 .conflict, .mergedInc 0 2, .inc 1 7 .ok, .inc 0 4 .ok]) 0 = 9 := by
  rw [counter_is_sum_of_acknowledged]; decide

example : interleavings [⟨"a", "1"⟩, ⟨"a", "2"⟩] [⟨"b", "9"⟩] =
    [[⟨"a", "1"⟩, ⟨"a", "2"⟩, ⟨"b", "9"⟩], [⟨"a", "1"⟩, ⟨"b", "9"⟩, ⟨"a", "2"⟩], [⟨"b", "9"⟩, ⟨"a", "1"⟩, ⟨"a", "2"⟩]] := by
  simp [interleavings]

end Defra.Conc
