/-
C04 — The commit graph is a well-formed, content-addressed Merkle DAG (head bookkeeping part).
Content addressing, closure under links and the height rule are observed on the implementation by the
harness on every block it reads (`[dag-content-address]`, `[dag-missing-block]`, `[dag-height]`) and the
`AddDelta` rule (parents = current heads, height = greatest head height + 1) is re-checked by `drv crdt`
for every locally written block; the theorems below carry the head-set invariant for every history.
-/
import DefraModel.Proofs.CrdtHeads
import DefraModel.Proofs.CrdtHeadsHistory
import DefraModel.Proofs.CrdtHeadsExact
import DefraModel.Proofs.CrdtHeight
namespace Defra.Props.C04
open Defra Defra.Crdt

/-- `updateHeads`, for every head list and block: the new block becomes a head and exactly the heads it
    names as parent (or link) stop being heads -/
theorem update_heads_exact (heads : List Nat) (b : Block) (hn : heads.Nodup)
    (hself : b.id ∉ b.parents ++ b.links) (x : Nat) :
    x ∈ updateHeads (fun _ => true) heads b ↔ (x = b.id ∨ (x ∈ heads ∧ x ∉ b.parents ++ b.links)) :=
  updateHeads_mem heads b hn hself x

theorem update_heads_no_duplicates (heads : List Nat) (b : Block) (hn : heads.Nodup)
    (hself : b.id ∉ b.parents ++ b.links) : (updateHeads (fun _ => true) heads b).Nodup :=
  updateHeads_nodup heads b hn hself

/-- **invariant step**: if the reported heads are exactly the merged commits that no merged commit names
    as parent, they still are after merging one more commit whose parents are merged — by induction,
    in every state reached by processing commits parents-first (which the height-ordered walk does) -/
theorem heads_are_childless_merged_step (par : Nat → Nat → Prop) (S : Nat → Prop) (heads : List Nat) (b : Block)
    (hn : heads.Nodup)
    (hpar : ∀ y x, par y x ↔ ∃ blk, blk = y ∧ (if y = b.id then x ∈ b.parents else par y x))
    (hclosed : ∀ y x, S y → par y x → S x)
    (hnew : ¬ S b.id)
    (hself : b.id ∉ b.parents ++ b.links)
    (hlinks : ∀ l ∈ b.links, l ∉ heads)
    (hinv : HeadsAreMaximal par S heads) :
    HeadsAreMaximal par (fun x => S x ∨ x = b.id) (updateHeads (fun _ => true) heads b) :=
  heads_maximal_step par S heads b hn hpar hclosed hnew hself hlinks hinv

/-- base case: nothing merged, no heads -/
theorem heads_are_childless_merged_init (par : Nat → Nat → Prop) :
    HeadsAreMaximal par (fun _ => False) [] := by
  intro x; simp

/-- **At all times.** For every history of merged commits in which each commit arrives after its parents (the
    height-ordered walk delivers them so), with distinct identifiers and links that name blocks of other DAGs: the
    commits reported as latest are exactly the merged commits that no merged commit names as parent, without
    duplicates. -/
theorem heads_are_exactly_the_childless_merged_commits (bs : List Block) (hc : Causal bs) (x : Nat) :
    (foldHeads bs).Nodup ∧ (x ∈ foldHeads bs ↔ (x ∈ bs.map (·.id) ∧ ∀ b ∈ bs, x ∉ b.parents)) :=
  ⟨(foldHeads_exact bs hc).1, (foldHeads_exact bs hc).2 x⟩

/-- **The same for `mergeDoc`, every kind of head set, every history of deliveries.** A replica starts empty and is
    delivered any stored commits in any order, any number of times. Then for the composite head set and for every
    field's head set of every document: a block is reported as latest exactly when it is merged (a head or an ancestor
    of a head of that kind) and no merged block of that kind names it as parent. For every store passing `wfCheck3`
    (evaluated by `drv crdt` on the stores of the run). -/
theorem latest_are_the_childless_merged_after_every_history (cx : Ctx) (hwf : wfCheck3 cx.blocks = true)
    (hknown : ∀ l, (cx.blocks.get? l).isSome = true → cx.known l = true) (d : String) (cs : List Block)
    (h : ∀ c ∈ cs, cx.blocks.get? c.id = some c ∧ c.kind = .comp) (k : Kind) (x : Nat) :
    x ∈ headsOf ((cs.foldl (mergeDoc cx) {}).doc d) k ↔
      (Reach cx.blocks (headsOf ((cs.foldl (mergeDoc cx) {}).doc d) k) x ∧
        ∀ y yb, Reach cx.blocks (headsOf ((cs.foldl (mergeDoc cx) {}).doc d) k) y → cx.blocks.get? y = some yb →
          x ∉ yb.parents) :=
  heads_exact cx.blocks _
    (deliveries_headsChildless cx (wfCheck3_sound cx.blocks hwf) hknown d cs {} h (docInv_empty cx.blocks)
      (headsChildless_empty cx.blocks)) k x

/-! ### the head set of a field is stored under the key `<namespace>/<cid>` and read back by key prefix -/

/-- **listing by the namespace closed with the separator is exact**: a stored head key `b/…` is listed under namespace
    `a` exactly when `a = b` (segments contain no separator) — repaired defect ffad14f -/
theorem head_listing_is_exact : ∀ (a b c : List Nat), 47 ∉ a → 47 ∉ b →
    ((a ++ [47]) <+: (b ++ [47] ++ c) ↔ a = b)
  | [], [], c, _, _ => by simp
  | [], y :: b, c, _, hb => by
    have hy : y ≠ 47 := fun e => hb (e ▸ List.mem_cons_self)
    simp only [List.nil_append, List.cons_append, List.cons_prefix_cons]
    constructor
    · rintro ⟨e, _⟩; exact absurd e.symm hy
    · intro e; cases e
  | x :: a, [], c, ha, _ => by
    have hx : x ≠ 47 := fun e => ha (e ▸ List.mem_cons_self)
    simp only [List.cons_append, List.nil_append, List.cons_prefix_cons]
    constructor
    · rintro ⟨e, _⟩; exact absurd e hx
    · intro e; cases e
  | x :: a, y :: b, c, ha, hb => by
    have ih := head_listing_is_exact a b c (fun h => ha (List.mem_cons_of_mem _ h)) (fun h => hb (List.mem_cons_of_mem _ h))
    simp only [List.cons_append, List.cons_prefix_cons] at ih ⊢
    constructor
    · rintro ⟨e, h⟩; rw [e, ih.mp h]
    · intro e; injection e with e1 e2; exact ⟨e1, ih.mpr e2⟩

/-- ... while the bare namespace (the pinned tree) also lists the heads of every field whose identifier merely starts
    with it: field `2` and field `20` (`[50]` and `[50, 48]`) -/
theorem bare_prefix_lists_other_fields : ([50] : List Nat) <+: ([50, 48] ++ [47] ++ [99]) ∧ ([50] : List Nat) ≠ [50, 48] := by
  decide

/-- a fork and its merge commit, as a causal history: 1, then 2 and 3 on top of 1, then 4 on top of both -/
def diamond : List Block :=
  [⟨1, .comp, "d", 1, [], [], .comp false⟩, ⟨2, .comp, "d", 2, [1], [], .comp false⟩,
   ⟨3, .comp, "d", 2, [1], [], .comp false⟩, ⟨4, .comp, "d", 3, [2, 3], [], .comp false⟩]

example : foldHeads (diamond.take 3) = [2, 3] ∧ foldHeads diamond = [4] := by decide

/-! ### the height rule (`Crdt/Height.lean`, mirror of `AddDelta` + `heads.List` + the height recorded per head) -/

/-- **a commit's height is one more than the greatest height among its parents — for every history**: from the
    empty store, after ANY history of local writes and merges of commits that obey the rule, every commit in the
    store obeys it (1 for a commit without parents), provided an identifier names one height (`H`, content
    addressing). The local writes are the point: `AddDelta` never looks at a parent block, only at the heights
    recorded in the head store — which are the parents' true heights at every step (`HeadsTrue`, the invariant;
    observed on the real head store as `[head-height]`) -/
theorem height_rule_after_every_history (H : Nat → Nat) (ops : List Height.Op)
    (hremote : ∀ c, Height.Op.remote c ∈ ops → Height.Good H c)
    (hH : ∀ c ∈ (Height.run {} ops).commits, H c.id = c.height) :
    ∀ c ∈ (Height.run {} ops).commits, c.height = Height.maxOf (c.parents.map H) + 1 :=
  Height.all_good H ops {} (fun h hh => by cases hh) (fun c hc => by cases hc) hremote hH

/-- the heights recorded in the head store are the heights of the commits, in every reachable state -/
theorem recorded_heights_are_true (ops : List Height.Op) :
    ∀ h ∈ (Height.run {} ops).heads, ∃ c ∈ (Height.run {} ops).commits, c.id = h.1 ∧ c.height = h.2 :=
  Height.run_headsTrue ops {} (fun h hh => by cases hh)

/-- under the rule the height strictly increases along every parent link, so the commit graph has no cycle -/
theorem parents_are_strictly_lower (H : Nat → Nat) (c : Height.Commit) (h : Height.Good H c) :
    ∀ p ∈ c.parents, H p < c.height := Height.good_parent_lower H c h

/-- two local writes, a concurrent remote commit on top of the first, then a local write merging both branches:
    heights 1, 2, 2, 3 -/
example : ((Height.run {} [.local 1, .local 2, .remote ⟨3, 2, [1]⟩, .local 4]).commits.map (fun c => (c.id, c.height, c.parents)))
    = [(1, 1, []), (2, 2, [1]), (3, 2, [1]), (4, 3, [2, 3])] := by decide

/-! non-vacuity: a fork `1 <- {2, 3}` then the merge commit `4` -/
example : updateHeads (fun _ => true) [2, 3] ⟨4, .comp, "d", 3, [2, 3], [9], .comp false⟩ = [4] := by decide
example : updateHeads (fun _ => true) [2] ⟨3, .comp, "d", 2, [1], [8], .comp false⟩ = [2, 3] := by decide

end Defra.Props.C04
