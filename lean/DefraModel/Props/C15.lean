import DefraModel.Repl

/-!
# C15 — replication eventually delivers every commit, across outages

For the replication model (`DefraModel/Repl.lean`) and every history of writes on A, outages of B and retry rounds:

* `run_inv` — at every point, every document whose latest write B lacks is marked as owed, and as long as anything
  is owed a retry record exists that is not stuck in the retrying state;
* `retry_delivers` — a retry round while B is reachable delivers everything owed and clears the bookkeeping;
* `eventually_delivered` — after ANY history, once B is reachable and one retry round has run, B holds what A holds
  (no operator action: the round is what the retry loop runs on its own);
* `no_record_means_synced` — when no retry record exists B is up to date.
-/
namespace Defra.Repl

theorem ver_setVer_same (m : List (Nat × Nat)) (d v : Nat) : ver (setVer m d v) d = v := by
  simp [ver, setVer]

theorem ver_setVer_other (m : List (Nat × Nat)) (d e v : Nat) (h : d ≠ e) : ver (setVer m d v) e = ver m e := by
  unfold ver setVer
  have h1 : ((d, v).1 == e) = false := by simp [h]
  rw [List.find?_cons_of_neg (by simp [h1])]
  congr 2
  induction m with
  | nil => rfl
  | cons x t ih =>
    simp only [List.filter_cons]
    by_cases hx : (x.1 != d) = true
    · simp only [hx, if_true, List.find?_cons]
      cases (x.1 == e) with
      | true => rfl
      | false => exact ih
    · have hxd : x.1 = d := by simpa using hx
      have hxe : (x.1 == e) = false := by rw [hxd]; simp [h]
      simp only [hx, Bool.false_eq_true, if_false, List.find?_cons, hxe]
      exact ih

/-- pushing every owed document while B is up leaves no difference on the owed ones and touches no other -/
theorem ver_foldl_push (a : List (Nat × Nat)) (owed : List Nat) (b : List (Nat × Nat)) (e : Nat) :
    ver (owed.foldl (fun b d => setVer b d (ver a d)) b) e = if e ∈ owed then ver a e else ver b e := by
  induction owed generalizing b with
  | nil => simp
  | cons d t ih =>
    simp only [List.foldl_cons]
    rw [ih]
    by_cases het : e ∈ t
    · simp [het]
    · simp only [het, if_false, List.mem_cons, or_false]
      by_cases hde : e = d
      · subst hde; simp [ver_setVer_same]
      · simp only [hde, if_false]
        exact ver_setVer_other b d e _ (Ne.symm hde)

theorem inv_init : Inv {} := by
  refine ⟨rfl, rfl, ?_, ?_⟩
  · intro d h; simp [ver] at h
  · intro h; exact absurd rfl h

theorem step_inv (s : St) (ev : Ev) (h : Inv s) : Inv (step s ev) := by
  obtain ⟨hr, hnr, howed, hrec⟩ := h
  cases ev with
  | down => exact ⟨hr, hnr, howed, hrec⟩
  | up => exact ⟨hr, hnr, howed, hrec⟩
  | write d =>
    simp only [step, hr, if_true, push]
    by_cases hup : s.bUp = true
    · simp only [hup, if_true]
      refine ⟨rfl, hnr, ?_, hrec⟩
      intro e he
      by_cases hed : e = d
      · subst hed; simp [ver_setVer_same] at he
      · rw [ver_setVer_other _ _ _ _ (Ne.symm hed), ver_setVer_other _ _ _ _ (Ne.symm hed)] at he
        exact howed e he
    · simp only [hup, Bool.false_eq_true, if_false]
      refine ⟨rfl, hnr, ?_, fun _ => rfl⟩
      intro e he
      simp only at he ⊢
      by_cases hed : e = d
      · subst hed
        split
        · rename_i hc; simpa using hc
        · exact List.mem_append_right _ (List.mem_singleton.mpr rfl)
      · rw [ver_setVer_other _ _ _ _ (Ne.symm hed)] at he
        have := howed e he
        split
        · exact this
        · exact List.mem_append_left _ this
  | retry =>
    simp only [step, hr, hnr, Bool.true_and, Bool.not_false, Bool.and_true]
    by_cases hrc : s.record = true
    · simp only [hrc, if_true]
      by_cases hup : s.bUp = true
      · simp only [hup, if_true]
        refine ⟨rfl, rfl, ?_, fun h => absurd rfl h⟩
        intro e he
        simp only at he
        rw [ver_foldl_push] at he
        by_cases heo : e ∈ s.owed
        · simp [heo] at he
        · simp only [heo, if_false] at he
          exact absurd (howed e he) heo
      · simp only [hup, Bool.false_eq_true, if_false]
        exact ⟨hr, hnr, howed, hrec⟩
    · simp only [hrc, Bool.false_eq_true, if_false]
      exact ⟨hr, hnr, howed, hrec⟩

/-- **Safety at every point of every history.** -/
theorem run_inv (evs : List Ev) : Inv (run evs) := by
  unfold run
  have h0 := inv_init
  generalize ({} : St) = s at h0
  induction evs generalizing s with
  | nil => exact h0
  | cons ev t ih => exact ih _ (step_inv s ev h0)

/-- a retry round while B is reachable delivers everything and clears the bookkeeping -/
theorem retry_delivers (s : St) (h : Inv s) (hup : s.bUp = true) :
    Synced (step s .retry) ∧ (step s .retry).owed = [] ∧ ((step s .retry).record = true → False) := by
  obtain ⟨hr, hnr, howed, hrec⟩ := h
  simp only [step, hr, hnr, Bool.true_and, Bool.not_false, Bool.and_true]
  by_cases hrc : s.record = true
  · simp only [hrc, if_true, hup]
    refine ⟨?_, by trivial, by simp⟩
    intro e
    simp only
    rw [ver_foldl_push]
    by_cases heo : e ∈ s.owed
    · simp [heo]
    · simp only [heo, if_false]
      exact Classical.byContradiction (fun hne => heo (howed e hne))
  · simp only [hrc, Bool.false_eq_true, if_false]
    have hno : s.owed = [] := by
      cases ho : s.owed with
      | nil => rfl
      | cons x t => exact absurd (hrec (by rw [ho]; exact List.cons_ne_nil _ _)) hrc
    refine ⟨?_, hno, by simp [hrc]⟩
    intro e
    exact Classical.byContradiction (fun hne => by have := howed e hne; rw [hno] at this; cases this)

/-- **Eventual delivery.** After any history of writes, outages and retry rounds: B comes (or is) up, the retry
    loop runs one round — B holds exactly what A holds. -/
theorem eventually_delivered (evs : List Ev) : Synced (run (evs ++ [.up, .retry])) := by
  have h1 : run (evs ++ [.up, .retry]) = step (step (run evs) .up) .retry := by
    unfold run
    rw [List.foldl_append]
    rfl
  rw [h1]
  have hinv := step_inv (run evs) .up (run_inv evs)
  exact (retry_delivers _ hinv rfl).1

/-- when nothing is recorded for retry, nothing is missing (given B did not just miss a write: the invariant) -/
theorem no_record_means_synced (evs : List Ev) (h : (run evs).record = false) : Synced (run evs) := by
  obtain ⟨_, _, howed, hrec⟩ := run_inv evs
  have hno : (run evs).owed = [] := by
    cases ho : (run evs).owed with
    | nil => rfl
    | cons x t =>
      have := hrec (by rw [ho]; exact List.cons_ne_nil _ _)
      rw [h] at this; cases this
  intro e
  exact Classical.byContradiction (fun hne => by have := howed e hne; rw [hno] at this; cases this)

/-! ### nothing invented, nothing taken back, and a status that tells the truth -/

/-- B never holds more than A wrote, and A's replicator status is "inactive" exactly while a retry record exists -/
def Inv2 (s : St) : Prop := (∀ d, ver s.b d ≤ ver s.a d) ∧ s.active = !s.record

theorem push_inv2 (s : St) (d : Nat) (h : Inv2 s) : Inv2 (push s d) ∧ ∀ e, ver s.b e ≤ ver (push s d).b e := by
  obtain ⟨hle, hst⟩ := h
  unfold push
  by_cases hup : s.bUp = true
  · simp only [hup, if_true]
    refine ⟨⟨fun e => ?_, hst⟩, fun e => ?_⟩
    · by_cases hde : d = e
      · subst hde; rw [ver_setVer_same]; exact Nat.le_refl _
      · rw [ver_setVer_other _ _ _ _ hde]; exact hle e
    · by_cases hde : d = e
      · subst hde; rw [ver_setVer_same]; exact hle d
      · rw [ver_setVer_other _ _ _ _ hde]; exact Nat.le_refl _
  · simp only [hup, Bool.false_eq_true, if_false]
    exact ⟨⟨hle, rfl⟩, fun e => Nat.le_refl _⟩

theorem step_inv2 (s : St) (ev : Ev) (h : Inv2 s) : Inv2 (step s ev) ∧ ∀ e, ver s.b e ≤ ver (step s ev).b e := by
  obtain ⟨hle, hst⟩ := h
  cases ev with
  | down => exact ⟨⟨hle, hst⟩, fun e => Nat.le_refl _⟩
  | up => exact ⟨⟨hle, hst⟩, fun e => Nat.le_refl _⟩
  | write d =>
    have h' : Inv2 { s with a := setVer s.a d (ver s.a d + 1) } := by
      refine ⟨fun e => ?_, hst⟩
      show ver s.b e ≤ ver (setVer s.a d (ver s.a d + 1)) e
      by_cases hde : d = e
      · subst hde; rw [ver_setVer_same]; exact Nat.le_succ_of_le (hle d)
      · rw [ver_setVer_other _ _ _ _ hde]; exact hle e
    simp only [step]
    by_cases hr : s.hasRep = true
    · simp only [hr, if_true]
      exact push_inv2 _ d h'
    · simp only [hr, Bool.false_eq_true, if_false]
      exact ⟨h', fun e => Nat.le_refl _⟩
  | retry =>
    simp only [step]
    by_cases hc : (s.hasRep && s.record && !s.retrying) = true
    · simp only [hc, if_true]
      by_cases hup : s.bUp = true
      · simp only [hup, if_true]
        refine ⟨⟨fun e => ?_, rfl⟩, fun e => ?_⟩
        · show ver (s.owed.foldl (fun b d => setVer b d (ver s.a d)) s.b) e ≤ ver s.a e
          rw [ver_foldl_push]
          split
          · exact Nat.le_refl _
          · exact hle e
        · show ver s.b e ≤ ver (s.owed.foldl (fun b d => setVer b d (ver s.a d)) s.b) e
          rw [ver_foldl_push]
          split
          · exact hle e
          · exact Nat.le_refl _
      · simp only [hup, Bool.false_eq_true, if_false]
        exact ⟨⟨hle, hst⟩, fun e => Nat.le_refl _⟩
    · simp only [hc, Bool.false_eq_true, if_false]
      exact ⟨⟨hle, hst⟩, fun e => Nat.le_refl _⟩

theorem run_inv2 (evs : List Ev) : Inv2 (run evs) := by
  unfold run
  have h0 : Inv2 ({} : St) := ⟨fun d => by simp [ver], rfl⟩
  generalize ({} : St) = s at h0
  induction evs generalizing s with
  | nil => exact h0
  | cons ev t ih => exact ih _ (step_inv2 s ev h0).1

/-- **nothing invented**: after any history of writes, outages and retry rounds the target holds, of every document,
    at most what the source wrote -/
theorem target_never_ahead (evs : List Ev) (d : Nat) : ver (run evs).b d ≤ ver (run evs).a d :=
  (run_inv2 evs).1 d

theorem foldl_step_mono (more : List Ev) : ∀ (s : St), Inv2 s → ∀ d, ver s.b d ≤ ver (more.foldl step s).b d := by
  induction more with
  | nil => intro s _ d; exact Nat.le_refl _
  | cons ev t ih =>
    intro s h0 d
    obtain ⟨h1, hm⟩ := step_inv2 s ev h0
    exact Nat.le_trans (hm d) (ih (step s ev) h1 d)

/-- **nothing taken back**: what the target holds of a document never shrinks, whatever happens next -/
theorem target_never_regresses (evs more : List Ev) (d : Nat) :
    ver (run evs).b d ≤ ver (run (evs ++ more)).b d := by
  have hrun : run (evs ++ more) = more.foldl step (run evs) := by unfold run; rw [List.foldl_append]
  rw [hrun]
  exact foldl_step_mono more (run evs) (run_inv2 evs) d

/-- **the status tells the truth**: the replicator is reported inactive exactly while a retry record exists — so an
    active replicator owes nothing (`no_record_means_synced`) -/
theorem active_means_synced (evs : List Ev) (h : (run evs).active = true) : Synced (run evs) := by
  have hst := (run_inv2 evs).2
  rw [h] at hst
  have : (run evs).record = false := by
    cases hr : (run evs).record
    · rfl
    · rw [hr] at hst; cases hst
  exact no_record_means_synced evs this

/-! ### non-vacuity -/

/-- two consecutive outages, each followed by a successful retry round -/
example :
    let s := run [.write 1, .down, .write 1, .write 2, .up, .retry, .down, .write 2, .write 3, .up, .retry]
    (s.owed, s.record, s.active, ver s.b 1, ver s.b 2, ver s.b 3) = ([], false, true, 2, 2, 1) := by decide

/-- a retry round while B is still down changes nothing -/
example : (run [.write 1, .down, .write 1, .retry]).owed = [1] ∧ (run [.write 1, .down, .write 1, .retry]).record = true := by
  decide

end Defra.Repl
