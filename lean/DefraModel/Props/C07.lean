/-
C07 — Secondary indexes never change what a query returns.
The index path is: candidates from a key range of the index (`createRangeBoundaries` / prefix / `_in` lookups)
→ value matchers → the COMPLETE filter re-applied to every fetched document (`filteredFetcher` wraps the index
fetcher, internal/db/fetcher/wrapper.go).  Hence what has to be shown is (1) completeness of the candidate
range: every entry whose value satisfies the condition lies in the scanned interval — proved here for all
eight operator × direction cases from the order-embedding theorems of C17 — and (2) that re-filtering a
duplicate-free superset of the matching documents yields exactly the matching documents.
Index maintenance (entries = entries of the live documents after any create/update/delete history) is proved for
the maintenance model (`Index/Maint.lean`: `indexNewDoc`, `updateDocIndex`, `deleteIndexedDoc`, `CreateIndex` on a
populated collection) by `index_matches_documents_after_every_history`; `drv query` keeps its index entries with
that model's `step`, and the raw index keys of the real store are compared byte for byte with them on every run;
the planner's choice of conditions (e.g. nothing under `_or`) by the twin-database comparison.
-/
import DefraModel.Proofs.IndexRange
import DefraModel.Proofs.IndexMaint
import DefraModel.Proofs.IndexMulti
namespace Defra.Props.C07
open Defra Defra.Enc Defra.Bytes Defra.Index Defra.Props.C17

/-- the condition `x op v` in the order of the values themselves -/
def satisfies (op : RangeOp) (x v : Val) : Prop :=
  match op with
  | .gt => Val.lt v x
  | .ge => x = v ∨ Val.lt v x
  | .lt => Val.lt x v
  | .le => x = v ∨ Val.lt x v

theorem vk_slt (col idx : Nat) (d : Bool) (a b : Val) (rest : Bytes)
    (h : slt (fieldValue d a) (fieldValue d b) = true) :
    slt (valueKey col idx d a) (entryKey col idx d b rest) = true := by
  unfold entryKey valueKey
  rw [List.append_assoc, slt_prefix]
  simp only [List.cons_append, slt_cons, beq_self_eq_true, Bool.true_and, Bool.or_eq_true]
  exact Or.inr (by simpa using slt_append _ _ [] rest h)

theorem entry_slt_vk (col idx : Nat) (d : Bool) (a b : Val) (rest : Bytes)
    (h : slt (fieldValue d a) (fieldValue d b) = true) :
    slt (entryKey col idx d a rest) (valueKey col idx d b) = true := by
  unfold entryKey valueKey
  rw [List.append_assoc, slt_prefix]
  simp only [List.cons_append, slt_cons, beq_self_eq_true, Bool.true_and, Bool.or_eq_true]
  exact Or.inr (by simpa using slt_append _ _ rest [] h)

theorem entry_isBytes (col idx : Nat) (d : Bool) (x : Val) (rest : Bytes) (hx : Val.Wf x)
    (hj : ∀ p y, x ≠ .json p y) (hr : IsBytes rest) : IsBytes (entryKey col idx d x rest) := by
  unfold entryKey valueKey baseKey
  refine isBytes_append (isBytes_append (isBytes_append ?_ ?_) ?_) hr
  · exact isBytes_cons (by decide) (uvarintAsc_isBytes _)
  · exact isBytes_cons (by decide) (uvarintAsc_isBytes _)
  · exact isBytes_cons (by decide) (fieldValue_isBytes d x hx hj)

/-- an entry lies at or after its own value key and strictly before the end of that key's prefix range -/
theorem entry_in_own_prefix (col idx : Nat) (d : Bool) (x : Val) (rest : Bytes) :
    lt (entryKey col idx d x rest) (valueKey col idx d x) = false ∧
    lt (entryKey col idx d x rest) (prefixEnd (valueKey col idx d x)) = true := by
  constructor
  · exact lt_append_self _ _
  · obtain ⟨e, he⟩ := pe_valueKey col idx d x
    rw [prefixEnd_eq, he]
    exact slt_imp_lt _ _ (pe_upper _ rest e he)

/-- every entry of the index lies at or after the base key and strictly before the end of the index -/
theorem entry_in_index (col idx : Nat) (d : Bool) (x : Val) (rest : Bytes) :
    lt (entryKey col idx d x rest) (baseKey col idx) = false ∧
    lt (entryKey col idx d x rest) (prefixEnd (baseKey col idx)) = true := by
  constructor
  · unfold entryKey valueKey; rw [List.append_assoc]; exact lt_append_self _ _
  · obtain ⟨e, he⟩ := pe_base col idx
    rw [prefixEnd_eq, he]
    unfold entryKey valueKey; rw [List.append_assoc]
    exact slt_imp_lt _ _ (pe_upper _ _ e he)

/-- the direction-adjusted key order: for a descending field a greater value has the smaller key -/
theorem key_order (d : Bool) (a b : Val) (ha : Val.Wf a) (hb : Val.Wf b) (h : Val.lt a b) :
    if d then slt (fieldValue d b) (fieldValue d a) = true else slt (fieldValue d a) (fieldValue d b) = true := by
  cases d
  · exact asc_mono a b ha hb h
  · exact desc_anti a b ha hb h

/-- **range completeness**: for every comparison operator, both index directions, every condition value and every
    stored value that satisfies the condition, the entry lies inside the interval the iterator scans.
    (Entries that do not satisfy it may lie inside too — e.g. null entries for `_lt` — they are removed by the
    re-applied filter.) -/
theorem range_complete (col idx : Nat) (desc : Bool) (op : RangeOp) (v x : Val) (rest : Bytes)
    (hv : Val.Wf v) (hx : Val.Wf x) (hjx : ∀ p y, x ≠ .json p y) (hr : IsBytes rest)
    (hsat : satisfies op x v) :
    inRange (entryKey col idx desc x rest) (rangeBounds col idx desc op v) = true := by
  have hb := entry_isBytes col idx desc x rest hx hjx hr
  have own := entry_in_own_prefix col idx desc x rest
  have inIdx := entry_in_index col idx desc x rest
  obtain ⟨ev, hev⟩ := pe_valueKey col idx desc v
  unfold inRange rangeBounds
  -- `entry > prefixEnd(valueKey v)` / `entry < valueKey v` from the key order of the values
  have above : ∀ (h : slt (fieldValue desc v) (fieldValue desc x) = true),
      lt (entryKey col idx desc x rest) (prefixEnd (valueKey col idx desc v)) = false := by
    intro h
    rw [prefixEnd_eq, hev]
    exact pe_lower _ _ ev hev (vk_slt col idx desc v x rest h) hb
  have aboveVk : ∀ (h : slt (fieldValue desc v) (fieldValue desc x) = true),
      lt (entryKey col idx desc x rest) (valueKey col idx desc v) = false := by
    intro h
    exact lt_asymm _ _ (slt_imp_lt _ _ (vk_slt col idx desc v x rest h))
  have below : ∀ (h : slt (fieldValue desc x) (fieldValue desc v) = true),
      lt (entryKey col idx desc x rest) (valueKey col idx desc v) = true := by
    intro h
    exact slt_imp_lt _ _ (entry_slt_vk col idx desc x v rest h)
  have belowEnd : ∀ (h : slt (fieldValue desc x) (fieldValue desc v) = true),
      lt (entryKey col idx desc x rest) (prefixEnd (valueKey col idx desc v)) = true := by
    intro h
    have h1 := below h
    have h2 : lt (valueKey col idx desc v) (prefixEnd (valueKey col idx desc v)) = true := by
      rw [prefixEnd_eq, hev]
      have := pe_upper _ [] ev hev
      simpa using slt_imp_lt _ _ this
    exact lt_trans _ _ _ h1 h2
  cases desc <;> cases op <;> simp only [satisfies] at hsat <;>
    simp only [Bool.false_eq_true, if_false, if_true, Bool.and_eq_true, Bool.not_eq_true']
  -- ascending
  · exact ⟨above (asc_mono v x hv hx hsat), inIdx.2⟩
  · rcases hsat with rfl | h
    · exact ⟨own.1, inIdx.2⟩
    · exact ⟨aboveVk (asc_mono v x hv hx h), inIdx.2⟩
  · exact ⟨inIdx.1, below (asc_mono x v hx hv hsat)⟩
  · rcases hsat with rfl | h
    · exact ⟨inIdx.1, own.2⟩
    · exact ⟨inIdx.1, belowEnd (asc_mono x v hx hv h)⟩
  -- descending: a greater value has the smaller key, and the code swaps the boundaries
  · exact ⟨inIdx.1, below (desc_anti v x hv hx hsat)⟩
  · rcases hsat with rfl | h
    · exact ⟨inIdx.1, own.2⟩
    · exact ⟨inIdx.1, belowEnd (desc_anti v x hv hx h)⟩
  · exact ⟨above (desc_anti x v hx hv hsat), inIdx.2⟩
  · rcases hsat with rfl | h
    · exact ⟨own.1, inIdx.2⟩
    · exact ⟨aboveVk (desc_anti x v hx hv h), inIdx.2⟩

/-- the equality lookup (prefix scan of the value key) finds every entry with that value -/
theorem eq_prefix_complete (col idx : Nat) (desc : Bool) (v : Val) (rest : Bytes) :
    isPrefix (valueKey col idx desc v) (entryKey col idx desc v rest) = true := by
  rw [isPrefix_iff]; exact ⟨rest, rfl⟩

/-- **re-filtering makes a complete candidate set exact**: if the candidates are duplicate-free documents of the
    collection and contain every matching document, filtering them gives exactly the matching documents -/
theorem refilter_exact {α : Type} [DecidableEq α] (docs cands : List α) (m : α → Bool)
    (hd : docs.Nodup) (hc : cands.Nodup) (hsub : ∀ d ∈ cands, d ∈ docs)
    (hcomplete : ∀ d ∈ docs, m d = true → d ∈ cands) :
    (cands.filter m).Perm (docs.filter m) := by
  apply (List.perm_ext_iff_of_nodup (hc.filter _) (hd.filter _)).mpr
  intro d
  simp only [List.mem_filter]
  constructor
  · rintro ⟨h1, h2⟩; exact ⟨hsub d h1, h2⟩
  · rintro ⟨h1, h2⟩; exact ⟨hcomplete d h1 h2, h2⟩

/-! non-vacuity: `_ge 5` on an ascending and `_lt 5` on a descending Int index, with a docID suffix -/
example : inRange (entryKey 1 2 false (.int 7) [0x2f, 6, 0x61, 0, 1]) (rangeBounds 1 2 false .ge (.int 5)) = true := by
  decide
example : inRange (entryKey 1 2 true (.int 3) [0x2f, 6, 0x61, 0, 1]) (rangeBounds 1 2 true .lt (.int 5)) = true := by
  decide
example : inRange (entryKey 1 2 false (.int 4) [0x2f, 6, 0x61, 0, 1]) (rangeBounds 1 2 false .ge (.int 5)) = false := by
  decide

/-- **Index maintenance, every history.** An index created at any moment on a collection (whose documents have
    distinct identifiers) and then carried through any sequence of creates, updates and deletes holds exactly one
    entry per live document, with that document's current values — no stale entry, none missing, none twice. -/
theorem index_matches_documents_after_every_history {α κ : Type} [DecidableEq κ] (key : α → κ)
    (docs : List (Nat × α)) (hn : (docs.map (·.1)).Nodup) (ops : List (IndexMaint.Op α)) :
    let s := ops.foldl (IndexMaint.step key) (IndexMaint.build key docs)
    (s.docs.map (·.1)).Nodup ∧ s.entries.Perm (s.docs.map (fun d => (key d.2, d.1))) :=
  IndexMaint.run_inv key _ ops (IndexMaint.inv_build key docs hn)

/-- consequence used by the query path: a document is reachable through the index under a value exactly when it is
    live and currently holds that value -/
theorem index_entry_iff_live_value {α κ : Type} [DecidableEq κ] (key : α → κ)
    (docs : List (Nat × α)) (hn : (docs.map (·.1)).Nodup) (ops : List (IndexMaint.Op α)) (k : κ) (id : Nat) :
    let s := ops.foldl (IndexMaint.step key) (IndexMaint.build key docs)
    (k, id) ∈ s.entries ↔ ∃ a, (id, a) ∈ s.docs ∧ key a = k := by
  intro s
  have h := (index_matches_documents_after_every_history key docs hn ops).2
  rw [h.mem_iff, List.mem_map]
  constructor
  · rintro ⟨d, hd, he⟩
    obtain ⟨h1, h2⟩ := Prod.mk.inj he
    exact ⟨d.2, by rw [← h2]; exact hd, h1⟩
  · rintro ⟨a, ha, hk⟩
    exact ⟨(id, a), ha, by simp [hk]⟩

/-! non-vacuity: index built over two documents, then one updated, one deleted, one created -/
example :
    (([IndexMaint.Op.update 1 30, .delete 2, .create 3 7, .update 3 8] : List (IndexMaint.Op Nat)).foldl
      (IndexMaint.step (fun a => a % 10)) (IndexMaint.build (fun a => a % 10) [(1, 11), (2, 22)])).entries
      = [(0, 1), (8, 3)] := by decide

/-! ### multi-entry (array) indexes and unique indexes -/

/-- **A multi-entry index scan, de-duplicated and re-filtered, is exact.** Whatever list of documents an index scan
    yields — with any number of repetitions, as an array or composite-over-array index produces — if it only yields
    documents of the collection and misses no matching one, then de-duplicating it the way `memorizingIndexIterator`
    does and re-applying the complete filter gives every matching document exactly once. -/
theorem multi_entry_scan_exact {α : Type} [DecidableEq α] (docs scan : List α) (m : α → Bool)
    (hd : docs.Nodup) (hsub : ∀ d ∈ scan, d ∈ docs) (hcomplete : ∀ d ∈ docs, m d = true → d ∈ scan) :
    ((IndexMulti.dedupSeen [] scan).filter m).Perm (docs.filter m) :=
  refilter_exact docs _ m hd (IndexMulti.nodup_dedupSeen scan [])
    (fun d h => hsub d ((IndexMulti.mem_dedupSeen scan [] d).mp h).1)
    (fun d h hm => (IndexMulti.mem_dedupSeen scan [] d).mpr ⟨hcomplete d h hm, by simp⟩)

/-- **Every live document is reachable through every index**: whatever its values — nil, an empty array, repeated
    elements — a document generates at least one entry under any list of indexed fields (`generateKeysAndProcess` with
    the generators of `internal/db/index.go`). This is the completeness premise of `multi_entry_scan_exact` for
    conditions on the other fields of a composite index; before the repair e25659e a nil or empty array generated no
    entry and the premise failed. -/
theorem every_document_has_an_entry_in_every_index (d : IndexMulti.MDoc) (fields : List String) :
    IndexMulti.keysOf d fields ≠ [] :=
  IndexMulti.keysOf_ne_nil d fields

example : IndexMulti.keysOf ⟨1, .str [97], .null, some [], none⟩ ["name", "nums", "tags"] = [[.str [97], .null, .null]] := by
  decide

/-- **The index path returns what the scan returns**, for every index over scalar and array fields of the model, every
    filter, every document list with distinct identifiers: if the candidate test derived from the filter (key range,
    prefix, matchers) passes at least one key of every matching document, the index fetch — candidate entries,
    de-duplication by document, look-up, complete filter — yields exactly the documents of the plain scan, each once. -/
theorem index_fetch_equals_scan (fields : List String) (cand : List Query.V → Bool) (f : IndexMulti.Filter)
    (docs : List IndexMulti.MDoc) (hn : (docs.map (·.k)).Nodup)
    (hcomplete : ∀ d ∈ docs, IndexMulti.satisfies f d = true →
      ∃ key ∈ IndexMulti.keysOf d fields, cand key = true) :
    (IndexMulti.indexFetch fields cand f docs).Perm (IndexMulti.eval f docs) :=
  IndexMulti.indexFetch_perm_eval fields cand f docs hn hcomplete

/-- in particular an index none of whose fields the filter constrains (every entry is a candidate) loses nothing:
    the premise holds because every document has an entry -/
theorem unconstrained_index_fetch_equals_scan (fields : List String) (f : IndexMulti.Filter)
    (docs : List IndexMulti.MDoc) (hn : (docs.map (·.k)).Nodup) :
    (IndexMulti.indexFetch fields (fun _ => true) f docs).Perm (IndexMulti.eval f docs) := by
  apply index_fetch_equals_scan fields _ f docs hn
  intro d _ _
  cases hk : IndexMulti.keysOf d fields with
  | nil => exact absurd hk (every_document_has_an_entry_in_every_index d fields)
  | cons key t => exact ⟨key, List.mem_cons_self, rfl⟩

/-- instances of the completeness premise: an equality on the leading scalar field, or `_any: {_eq: v}` on the leading
    array field, served by the prefix look-up under `v`, returns what the scan returns — for a single conjunction of
    conditions, any further conditions, any further index fields -/
theorem leading_eq_lookup_equals_scan (f0 : String) (rest : List String) (v : Query.V) (conj : List IndexMulti.Atom)
    (hin : IndexMulti.Atom.sc f0 .eq [v] ∈ conj) (hsc : IndexMulti.isArrayField f0 = false)
    (docs : List IndexMulti.MDoc) (hn : (docs.map (·.k)).Nodup) :
    (IndexMulti.indexFetch (f0 :: rest) (fun key => Query.vEq v (key.headD .null)) [conj] docs).Perm
      (IndexMulti.eval [conj] docs) :=
  index_fetch_equals_scan _ _ _ docs hn (fun d _ hs => IndexMulti.leading_eq_complete f0 rest v conj hin hsc d hs)

theorem leading_any_eq_lookup_equals_scan (f0 : String) (rest : List String) (v : Query.V)
    (conj : List IndexMulti.Atom) (hin : IndexMulti.Atom.arr f0 .any .eq [v] ∈ conj)
    (harr : IndexMulti.isArrayField f0 = true) (docs : List IndexMulti.MDoc) (hn : (docs.map (·.k)).Nodup) :
    (IndexMulti.indexFetch (f0 :: rest) (fun key => Query.vEq v (key.headD .null)) [conj] docs).Perm
      (IndexMulti.eval [conj] docs) :=
  index_fetch_equals_scan _ _ _ docs hn (fun d _ hs => IndexMulti.leading_any_eq_complete f0 rest v conj hin harr d hs)

/-- non-vacuity: an index on (nums, name), `nums: {_any: {_eq: 2}}`: two of three documents, the one holding 2 twice
    listed once -/
example :
    IndexMulti.indexFetch ["nums", "name"] (fun key => Query.vEq (.int 2) (key.headD .null))
      [[IndexMulti.Atom.arr "nums" .any .eq [.int 2]]]
      [⟨1, .str [97], .null, some [.int 2, .int 2, .int 5], none⟩, ⟨2, .str [98], .null, some [], none⟩,
       ⟨3, .null, .null, some [.int 1, .int 2], none⟩] = [1, 3] := by decide

/-- without the de-duplication the statement is false: a document with two entries is listed twice -/
example : ([7, 7, 8].filter (fun _ => true)) ≠ [7, 8] ∧ (IndexMulti.dedupSeen [] [7, 7, 8]).filter (fun _ => true) = [7, 8] := by
  decide

/-- **Unique indexes, every history of local writes.** After any sequence of creates, updates, deletes and creations
    of unique indexes (each accepted or rejected by the rule of `collectionUniqueIndex`), identifiers are distinct and
    no two live documents share a key without nil component under any unique index. -/
theorem unique_index_never_shared_after_every_history (ops : List IndexMulti.Op) :
    IndexMulti.UInv (ops.foldl (fun s op => (IndexMulti.step s op).1) {}) :=
  IndexMulti.run_inv {} ops ⟨by simp, by intro fs hfs; cases hfs⟩

/-- **… rejecting exactly the writes that would.** A create with a fresh identifier is rejected if and only if some
    unique index has a key without nil component that the new document shares with a live one. -/
theorem unique_index_rejects_exactly (s : IndexMulti.St) (d : IndexMulti.MDoc)
    (hfresh : s.docs.any (·.k == d.k) = false) :
    (IndexMulti.step s (.create d)).2 = false ↔
      ∃ fs ∈ s.uniq, ∃ o ∈ s.docs, o.k ≠ d.k ∧ IndexMulti.Shares fs d o := by
  simp only [IndexMulti.step, hfresh, Bool.false_eq_true, if_false]
  by_cases hr : IndexMulti.rejectedBy s d = true
  · simp only [hr, if_true, true_iff]
    unfold IndexMulti.rejectedBy at hr
    obtain ⟨fs, hfs, hc⟩ := List.any_eq_true.mp hr
    exact ⟨fs, hfs, (IndexMulti.conflicts_iff fs d s.docs).mp hc⟩
  · simp only [hr, Bool.false_eq_true, if_false, Bool.true_eq_false, false_iff]
    rintro ⟨fs, hfs, o, ho, hk, hs⟩
    exact IndexMulti.not_rejected (by simpa using hr) fs hfs o ho hk hs

/-- the same for an update: rejected iff the new contents would share such a key with another live document -/
theorem unique_index_update_rejects_exactly (s : IndexMulti.St) (d : IndexMulti.MDoc)
    (hlive : s.docs.any (·.k == d.k) = true) :
    (IndexMulti.step s (.update d)).2 = false ↔
      ∃ fs ∈ s.uniq, ∃ o ∈ s.docs, o.k ≠ d.k ∧ IndexMulti.Shares fs d o := by
  simp only [IndexMulti.step, hlive, Bool.not_true, Bool.false_eq_true, if_false]
  by_cases hr : IndexMulti.rejectedBy s d = true
  · simp only [hr, if_true, true_iff]
    unfold IndexMulti.rejectedBy at hr
    obtain ⟨fs, hfs, hc⟩ := List.any_eq_true.mp hr
    exact ⟨fs, hfs, (IndexMulti.conflicts_iff fs d s.docs).mp hc⟩
  · simp only [hr, Bool.false_eq_true, if_false, Bool.true_eq_false, false_iff]
    rintro ⟨fs, hfs, o, ho, hk, hs⟩
    exact IndexMulti.not_rejected (by simpa using hr) fs hfs o ho hk hs

/-! non-vacuity: a unique index on (name, nums): sharing one array element under the same name is rejected, a nil
    name never collides, and the value is free again after a delete -/
section
open IndexMulti Query
def dA : MDoc := ⟨1, .str [97], .int 3, some [.int 1, .int 2], none⟩
def dB : MDoc := ⟨2, .str [97], .int 4, some [.int 2, .int 5], none⟩
def dC : MDoc := ⟨3, .null, .int 4, some [.int 2], none⟩
example :
    let s0 : St := { uniq := [["name", "nums"]] }
    let s1 := (step s0 (.create dA)).1
    (step s1 (.create dB)).2 = false ∧ (step s1 (.create dC)).2 = true ∧
      (step (step s1 (.delete 1)).1 (.create dB)).2 = true := by decide
end

end Defra.Props.C07
