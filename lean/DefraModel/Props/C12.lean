/-
C12 — Commit signatures authenticate content and author; forged commits are not merged.
The signature scheme (ECDSA secp256k1 / Ed25519 in the repository) is a parameter with correctness, idealised
unforgeability and binding; `Sign.toy` shows the laws are satisfiable.  Which blocks carry a signature, what bytes
are signed (everything but the signature link), how the API reports a wrong key / missing signature / invalid
signature, and that the DAG sync entry point rejects a push with any non-verifying attached signature are mirrored
and compared with the real code (both key types, every single-field tampering) by harness/sign.
-/
import DefraModel.Sign
namespace Defra.Props.C12
open Defra Defra.Sign

variable {SK PK S : Type} [DecidableEq PK]

/-- a commit signed by `sk` verifies against `sk`'s public key over its exact content -/
theorem signed_verifies (sc : Scheme SK PK Content S) (sk : SK) (c : Content) :
    verifyWithKey sc ⟨c, some ⟨sc.pk sk, sc.sign sk c⟩⟩ (sc.pk sk) = .ok := by
  simp [verifyWithKey, sc.sound]

/-- ... and fails to verify under any other key -/
theorem wrong_key_fails (sc : Scheme SK PK Content S) (sk : SK) (c : Content) (other : PK)
    (h : other ≠ sc.pk sk) :
    verifyWithKey sc ⟨c, some ⟨sc.pk sk, sc.sign sk c⟩⟩ other = .mismatch := by
  have : sc.pk sk ≠ other := fun e => h e.symm
  simp [verifyWithKey, this]

/-- ... and after ANY change to the signed content (delta, priority, parents, links, encryption link) -/
theorem tamper_fails (sc : Scheme SK PK Content S) (sk : SK) (c c' : Content) (h : c' ≠ c) :
    verifyWithKey sc ⟨c', some ⟨sc.pk sk, sc.sign sk c⟩⟩ (sc.pk sk) = .invalid := by
  have hv : sc.verify (sc.pk sk) c' (sc.sign sk c) = false := by
    cases hx : sc.verify (sc.pk sk) c' (sc.sign sk c)
    · rfl
    · obtain ⟨sk', hp, hs⟩ := sc.unforgeable _ _ _ hx
      exact absurd (sc.binding sk sk' c c' hp hs).symm h
  simp [verifyWithKey, hv]

/-- a commit without a signature reports "missing", never "ok" -/
theorem unsigned_is_not_ok (sc : Scheme SK PK Content S) (c : Content) (key : PK) :
    verifyWithKey sc ⟨c, none⟩ key = .missing := rfl

/-- **a push is accepted only if every attached signature is genuine**: when the DAG sync accepts, every reachable
    block that carries a signature was signed, over exactly its content, by the secret key of the identity it names -/
theorem accepted_means_all_genuine (sc : Scheme SK PK Content S) (reachable : List (Block PK S))
    (h : syncAccepts sc reachable = true) (b : Block PK S) (hb : b ∈ reachable) (sg : SigBlock PK S)
    (hs : b.signature = some sg) : ∃ sk, sg.identity = sc.pk sk ∧ sg.value = sc.sign sk b.content := by
  unfold syncAccepts at h
  have hb' := List.all_eq_true.mp h b hb
  unfold verifyBlock at hb'
  rw [hs] at hb'
  exact sc.unforgeable _ _ _ hb'

/-- **forged commits are not merged**: one reachable block whose attached signature does not verify makes the
    whole push fail, so no merge event is raised and (C01's model) no document state, history or head changes -/
theorem forged_not_merged (sc : Scheme SK PK Content S) (reachable : List (Block PK S))
    (b : Block PK S) (hb : b ∈ reachable) (hbad : verifyBlock sc b = false) :
    syncAccepts sc reachable = false := by
  unfold syncAccepts
  cases h : reachable.all (verifyBlock sc)
  · rfl
  · have := List.all_eq_true.mp h b hb
    rw [hbad] at this; cases this

/-- in particular a tampered signed block anywhere in the pushed DAG -/
theorem tampered_block_rejects_push (sc : Scheme SK PK Content S) (sk : SK) (c c' : Content) (h : c' ≠ c)
    (reachable : List (Block PK S)) (hb : (⟨c', some ⟨sc.pk sk, sc.sign sk c⟩⟩ : Block PK S) ∈ reachable) :
    syncAccepts sc reachable = false := by
  apply forged_not_merged sc reachable _ hb
  unfold verifyBlock
  simp only
  cases hx : sc.verify (sc.pk sk) c' (sc.sign sk c)
  · rfl
  · obtain ⟨sk', hp, hs⟩ := sc.unforgeable _ _ _ hx
    exact absurd (sc.binding sk sk' c c' hp hs).symm h

/-- **"ok" means untouched**: whatever verifies against the signature the author made over `c` IS `c` -/
theorem ok_means_untouched (sc : Scheme SK PK Content S) (sk : SK) (c c' : Content)
    (h : verifyWithKey sc ⟨c', some ⟨sc.pk sk, sc.sign sk c⟩⟩ (sc.pk sk) = .ok) : c' = c := by
  apply Classical.byContradiction
  intro hne
  rw [tamper_fails sc sk c c' hne] at h
  cases h

/-- **later field blocks are covered by the composite's signature** (`signBlock` signs composites and only the
    first block of a field: "the integrity of the field data is guaranteed by signatures of the parent composite
    blocks"): identifiers being content hashes (`cid`, injective), every field block that a composite verifying under
    the author's signature links is one of the field blocks the author linked — a replaced field block has another
    identifier, and a composite re-pointed at it no longer verifies -/
theorem linked_field_blocks_are_the_authors {FD : Type} (cid : FD → Nat) (hinj : ∀ a b, cid a = cid b → a = b)
    (sc : Scheme SK PK Content S) (sk : SK) (authored : List FD) (c c' : Content)
    (hlinks : c.links = authored.map cid)
    (h : verifyWithKey sc ⟨c', some ⟨sc.pk sk, sc.sign sk c⟩⟩ (sc.pk sk) = .ok)
    (fd : FD) (hfd : cid fd ∈ c'.links) : fd ∈ authored := by
  have := ok_means_untouched sc sk c c' h
  subst this
  rw [hlinks] at hfd
  obtain ⟨a, ha, e⟩ := List.mem_map.mp hfd
  rw [← hinj a fd e]; exact ha

/-! non-vacuity with the toy scheme -/
example : verifyWithKey toy ⟨⟨1, 1, [], [2], none⟩, some ⟨7, toy.sign 7 ⟨1, 1, [], [2], none⟩⟩⟩ 7 = .ok := by decide
example : verifyWithKey toy ⟨⟨9, 1, [], [2], none⟩, some ⟨7, toy.sign 7 ⟨1, 1, [], [2], none⟩⟩⟩ 7 = .invalid := by decide
example : syncAccepts toy [⟨⟨1, 1, [], [], none⟩, none⟩, ⟨⟨9, 2, [1], [], none⟩, some ⟨7, toy.sign 7 ⟨8, 2, [1], [], none⟩⟩⟩] = false := by
  decide

end Defra.Props.C12
