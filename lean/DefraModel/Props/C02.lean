/-
C02 — Every update is applied exactly once; nothing lost, nothing doubled.
-/
import DefraModel.Proofs.CrdtFolds
import DefraModel.Proofs.CrdtWalk
import DefraModel.Proofs.CrdtIsMerged
import DefraModel.Proofs.CrdtMergeDocRefine
import DefraModel.Proofs.CrdtMergeFull
namespace Defra.Props.C02
open Defra Defra.Crdt

/-- a counter equals its initial value plus the increments of the applied commits, one term per
    application — so "each merged commit counted once" is exactly "the applied list is duplicate-free
    and enumerates the merged set" -/
theorem counter_is_sum (applied : List Block) (s : Vals) (f : String) :
    ((applied.foldl applyDelta s).ctr f).getD 0 = (s.ctr f).getD 0 + (applied.map (ctrOf f)).sum :=
  foldl_ctr applied s f

/-- the sum does not depend on the order of application -/
theorem counter_order_free (l₁ l₂ : List Block) (p : l₁.Perm l₂) (s : Vals) (f : String) :
    ((l₁.foldl applyDelta s).ctr f).getD 0 = ((l₂.foldl applyDelta s).ctr f).getD 0 := by
  rw [applyAll_perm s l₁ l₂ p]

/-- a document is deleted exactly when it was deleted before or an applied commit deletes it -/
theorem deleted_iff (applied : List Block) (s : Vals) :
    (applied.foldl applyDelta s).marker = some true ↔
      (s.marker = some true ∨ ∃ b ∈ applied, isDelete b = true) := foldl_marker applied s

/-- ... and is never resurrected by anything applied later -/
theorem never_resurrected (later : List Block) (s : Vals) (h : s.marker = some true) :
    (later.foldl applyDelta s).marker = some true := (foldl_marker later s).mpr (Or.inl h)

/-- a register holds a value that was written, and no applied write is above it in
    (height, bytes) order -/
theorem register_holds_a_latest_write (applied : List Block) (f : String) (r : Nat × Bytes)
    (h : (applied.foldl applyDelta {}).lww f = some r) :
    (∃ b ∈ applied, lwwOf f b = some r) ∧
    (∀ b ∈ applied, ∀ x, lwwOf f b = some x → ple x r) := by
  constructor
  · rcases foldl_lww_mem applied {} f r h with h' | h'
    · cases h'
    · exact h'
  · intro b hb x hx
    obtain ⟨r', hr', hle⟩ := (foldl_lww_upper applied {} f).1 b hb x hx
    rw [h] at hr'; cases hr'; exact hle

/-- hence the winner is causally latest: no applied write has a greater height, and every ancestor
    of a write has a strictly smaller height (C04), so the winner is dominated by no merged write -/
theorem winner_has_max_height (applied : List Block) (f : String) (r : Nat × Bytes)
    (h : (applied.foldl applyDelta {}).lww f = some r) (b : Block) (hb : b ∈ applied)
    (x : Nat × Bytes) (hx : lwwOf f b = some x) : x.1 ≤ r.1 := by
  have := (register_holds_a_latest_write applied f r h).2 b hb x hx
  unfold ple at this
  omega

/-- redelivery of a commit that is already merged changes nothing: the walk collects no block -/
theorem redelivery_is_noop (cx : Ctx) (r : Replica) (c : Block)
    (hget : cx.blocks.get? c.id = some c)
    (hm : isMerged cx.blocks (r.doc c.doc).heads c.id c.height = true) :
    (loadComposites cx.blocks (r.doc c.doc).heads (cx.blocks.length + 1) c.id ([], [])).1 = [] := by
  simp [loadComposites, hget, hm]

/-- **The walk hands every commit to the merge at most once.** For every block store (well-formed or not), every
    head set and every start commit, the blocks `loadComposites` collects have pairwise distinct identifiers, and so
    has the list actually applied (sorted by height, a permutation of it). Together with `counter_is_sum` this is
    "nothing doubled" for every DAG. (That it also reaches every unmerged ancestor is `walk_reaches_every_unmerged_ancestor`.) -/
theorem walk_applies_each_commit_at_most_once (bs : Blocks) (heads : List Nat) (c : Nat) :
    ((loadComposites bs heads (bs.length + 1) c ([], [])).1.map (·.id)).Nodup ∧
    ((sortByHeight (loadComposites bs heads (bs.length + 1) c ([], [])).1).map (·.id)).Nodup := by
  have h := (loadComposites_inv bs heads (bs.length + 1) c ([], []) ⟨by simp, by intro b hb; cases hb⟩).1
  exact ⟨h, ((sortByHeight_perm _).map _).nodup_iff.mpr h⟩

/-- **Nothing is skipped that was not merged.** When the walk does not descend into a commit because `isMerged` says
    it is merged, that commit is one of the document's current heads or an ancestor of one (reachable from the heads
    by parent links) — for every block store and head set. -/
theorem walk_skips_only_merged (bs : Blocks) (heads : List Nat) (target height : Nat)
    (h : isMerged bs heads target height = true) : Reach bs heads target :=
  isMerged_sound bs heads target height h

/-- **Nothing unmerged is missed.** Every commit that can be reached from the delivered one through available
    commits that are not reported as merged is visited by the walk and — being itself such a commit — collected
    for merging; with `walk_applies_each_commit_at_most_once`: exactly once. For every block store (no acyclicity or
    height assumption is needed: the fuel `length + 1` provably suffices). -/
theorem walk_reaches_every_unmerged_ancestor (bs : Blocks) (heads : List Nat) (c x : Nat) (hp : UPath bs heads c x)
    (b : Block) (hb : bs.get? x = some b) (hnm : isMerged bs heads x b.height = false) :
    b ∈ (loadComposites bs heads (bs.length + 1) c ([], [])).1 :=
  (walk_reaches bs heads c x hp).2 b hb hnm

/-- **A merged commit is always recognised (nothing doubled).** In a well-formed block store (every parent stored
    and strictly lower: C04) a stored commit that is a head or an ancestor of a head is reported as merged, so the
    walk never collects it again; with `walk_skips_only_merged`, `isMerged` decides exactly "head or ancestor of a
    head". The fuel `length + 2` provably suffices (heights strictly decrease along a path). -/
theorem merged_commit_is_recognised (bs : Blocks) (wf : WellFormed bs) (heads : List Nat) (t : Nat) (tb : Block)
    (ht : bs.get? t = some tb) : isMerged bs heads t tb.height = true ↔ Reach bs heads t :=
  isMerged_iff bs wf heads t tb ht

/-- a well-formed store exists and the statement is not vacuous: the diamond 1 <- {2, 3} <- 4 -/
def diamondStore : Blocks :=
  [⟨1, .comp, "d", 1, [], [], .comp false⟩, ⟨2, .comp, "d", 2, [1], [], .comp false⟩,
   ⟨3, .comp, "d", 2, [1], [], .comp false⟩, ⟨4, .comp, "d", 3, [2, 3], [], .comp false⟩]

example : isMerged diamondStore [4] 1 1 = true ∧ isMerged diamondStore [2] 3 2 = false ∧
    ((loadComposites diamondStore [2] 5 4 ([], [])).1.map (·.id)) = [3, 4] := by decide

/-- **One delivered commit, end to end.** `mergeDoc` — the model of `executeMerge` that `drv crdt` runs in lock-step
    with the implementation — on a store that passes `wfCheck` (evaluated by `drv crdt` on every store the
    implementation produced) and a document whose heads pass `headsCheck`: the blocks applied (`news`) are exactly `c`
    and those ancestors of `c` that were not merged before, each once, parents first; the delete marker is the fold of
    exactly these; afterwards the merged set (heads and their ancestors) is the old one together with `c` and its
    ancestors; the heads are again distinct stored composites. Nothing lost, nothing doubled, for every store, head set
    and delivered commit. -/
theorem merge_applies_exactly_the_unmerged_ancestors_once (cx : Ctx) (hwf : wfCheck cx.blocks = true)
    (hknown : ∀ l, (cx.blocks.get? l).isSome = true → cx.known l = true)
    (r : Replica) (c : Block) (hc : cx.blocks.get? c.id = some c) (hck : c.kind = .comp)
    (hh : headsCheck cx.blocks (r.doc c.doc).heads = true) :
    ∃ news : List Block,
      (news.map (·.id)).Nodup ∧
      news.Pairwise (fun x y => x.height ≤ y.height) ∧
      (∀ b, b ∈ news ↔ (cx.blocks.get? b.id = some b ∧ Anc cx.blocks c.id b.id ∧
        ¬ Reach cx.blocks (r.doc c.doc).heads b.id)) ∧
      ((mergeDoc cx r c).doc c.doc).vals.marker =
        news.foldl (fun m b => markerOf b m) (r.doc c.doc).vals.marker ∧
      (∀ t, Reach cx.blocks ((mergeDoc cx r c).doc c.doc).heads t ↔
        (Reach cx.blocks (r.doc c.doc).heads t ∨ (Anc cx.blocks c.id t ∧ ∃ b, cx.blocks.get? t = some b))) ∧
      HInv cx.blocks ((mergeDoc cx r c).doc c.doc).heads := by
  have swf := wfCheck_sound cx.blocks hwf
  have hi : HInv cx.blocks (proj r c.doc).heads := headsCheck_sound cx.blocks _ hh
  obtain ⟨news, h1, h2, h3, h4, h5, h6⟩ :=
    mergeComp_exact cx.blocks swf.base (proj r c.doc) hi c.id ⟨c, hc, hck⟩
  have href := mergeDoc_refines cx swf hknown r c hc hck
  have hheads : ((mergeDoc cx r c).doc c.doc).heads = (mergeComp cx.blocks (proj r c.doc) c.id).heads :=
    congrArg CompSt.heads href
  have hmark : ((mergeDoc cx r c).doc c.doc).vals.marker = (mergeComp cx.blocks (proj r c.doc) c.id).marker :=
    congrArg CompSt.marker href
  refine ⟨news, h1, h2, h3, ?_, ?_, ?_⟩
  · rw [hmark]; exact h6
  · intro t; rw [hheads]; exact h5 t
  · rw [hheads]; exact h4

/-- the blocks one delivery processes: the commit and its not yet merged ancestors (parents first), each followed by
    the stored blocks it links -/
def deliverySeq (cx : Ctx) (r : Replica) (c : Block) : List Block :=
  flatSeq cx.blocks
    (sortByHeight (loadComposites cx.blocks (r.doc c.doc).heads (cx.blocks.length + 1) c.id ([], [])).1)

/-- the blocks one delivery applies: of `deliverySeq`, those not merged before the delivery, first occurrences (equal
    field blocks are one content-addressed block and may be linked by several composites) -/
def appliedBlocks (cx : Ctx) (r : Replica) (c : Block) : List Block :=
  appliedSeq cx.blocks (r.doc c.doc) (deliverySeq cx r c)

/-- the applied blocks are pairwise distinct and are exactly the processed blocks that were not merged before -/
theorem appliedBlocks_nodup (cx : Ctx) (r : Replica) (c : Block) : ((appliedBlocks cx r c).map (·.id)).Nodup :=
  foldl_addFirst_nodup cx.blocks (r.doc c.doc) (deliverySeq cx r c) [] (by simp)

theorem appliedBlocks_sound (cx : Ctx) (r : Replica) (c : Block) (x : Block) (h : x ∈ appliedBlocks cx r c) :
    x ∈ deliverySeq cx r c ∧ unmergedAt cx.blocks (r.doc c.doc) x = true := by
  rcases foldl_addFirst_mem cx.blocks (r.doc c.doc) (deliverySeq cx r c) [] x h with h | h
  · cases h
  · exact h

theorem appliedBlocks_complete (cx : Ctx) (r : Replica) (c : Block) (x : Block) (hx : x ∈ deliverySeq cx r c)
    (hu : unmergedAt cx.blocks (r.doc c.doc) x = true) : ∃ y ∈ appliedBlocks cx r c, y.id = x.id :=
  foldl_addFirst_has cx.blocks (r.doc c.doc) x.id (deliverySeq cx r c) [] (Or.inr ⟨x, hx, rfl, hu⟩)

/-- **One delivered commit, end to end, the whole document.** For `mergeDoc` on a store passing `wfCheck3` and a
    document state passing `kinvCheck` and `linkInvCheck` (all three evaluated by `drv crdt` on the stores and states
    of the run): every head set — the composite one and each field's — afterwards reaches exactly what it reached
    before plus the processed blocks of its kind; and the document's values (delete marker, every register, every
    counter) are the old values with the deltas of `appliedBlocks` applied: exactly the processed blocks that were not
    merged before, each once (`appliedBlocks_nodup`, `_sound`, `_complete`). -/
theorem merge_end_to_end_whole_document (cx : Ctx) (hwf : wfCheck3 cx.blocks = true)
    (hknown : ∀ l, (cx.blocks.get? l).isSome = true → cx.known l = true)
    (r : Replica) (c : Block) (hc : cx.blocks.get? c.id = some c) (hck : c.kind = .comp)
    (hk : kinvCheck cx.blocks (r.doc c.doc) = true) (hli : linkInvCheck cx.blocks (r.doc c.doc) = true) :
    (∀ k t, Reach cx.blocks (headsOf ((mergeDoc cx r c).doc c.doc) k) t ↔
      (Reach cx.blocks (headsOf (r.doc c.doc) k) t ∨ ∃ b ∈ deliverySeq cx r c, b.id = t ∧ b.kind = k)) ∧
    ((mergeDoc cx r c).doc c.doc).vals = (appliedBlocks cx r c).foldl applyDelta (r.doc c.doc).vals ∧
    KInv cx.blocks ((mergeDoc cx r c).doc c.doc) := by
  have swf := wfCheck3_sound cx.blocks hwf
  obtain ⟨_, _, h3, h4, h5⟩ := mergeDoc_full cx swf hknown r c hc hck
    (kinvCheck_sound _ _ hk) (linkInvCheck_sound _ swf.base2.base.wf _ hli)
  exact ⟨h4, h5, h3⟩

/-- **Nothing lost, nothing doubled, for counters.** After a delivery a counter equals its value before plus the
    increments of the applied blocks — one term per block, the blocks pairwise distinct and exactly the processed ones
    that were not merged before. -/
theorem counter_gains_each_new_increment_once (cx : Ctx) (hwf : wfCheck3 cx.blocks = true)
    (hknown : ∀ l, (cx.blocks.get? l).isSome = true → cx.known l = true)
    (r : Replica) (c : Block) (hc : cx.blocks.get? c.id = some c) (hck : c.kind = .comp)
    (hk : kinvCheck cx.blocks (r.doc c.doc) = true) (hli : linkInvCheck cx.blocks (r.doc c.doc) = true) (f : String) :
    ((((mergeDoc cx r c).doc c.doc).vals).ctr f).getD 0 =
      (((r.doc c.doc).vals).ctr f).getD 0 + ((appliedBlocks cx r c).map (ctrOf f)).sum := by
  rw [(merge_end_to_end_whole_document cx hwf hknown r c hc hck hk hli).2.1]
  exact foldl_ctr _ _ f

/-- the hypotheses are met by a concrete store, and the walk applies `3, 4` on top of heads `[2]` -/
example : wfCheck diamondStore = true ∧ headsCheck diamondStore [2] = true := by decide

/-- a store with field blocks: two commits of one document, each linking an increment of `points` -/
def counterStore : Blocks :=
  [⟨1, .comp, "d", 1, [], [2], .comp false⟩, ⟨2, .field "points", "d", 1, [], [], .ctr 1⟩,
   ⟨3, .comp, "d", 2, [1], [4], .comp false⟩, ⟨4, .field "points", "d", 2, [2], [], .ctr 10⟩]

example : wfCheck3 counterStore = true ∧ kinvCheck counterStore {} = true ∧ linkInvCheck counterStore {} = true := by
  decide

/-! non-vacuity -/
def inc1 : Block := ⟨2, .field "points", "d", 1, [], [], .ctr 1⟩
def inc10 : Block := ⟨4, .field "points", "d", 2, [2], [], .ctr 10⟩
example : (([inc1, inc10].foldl applyDelta {}).ctr "points").getD 0 = 11 := by decide

end Defra.Props.C02
