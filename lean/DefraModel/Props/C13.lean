/-
C13 — Document, schema and collection identifiers are pure functions of content.
`docBytes` mirrors `Document.Bytes()` (canonical CBOR of the non-nil field map) byte for byte (compared on every
generated document); a document identifier is `uuid5 (sha256 (docBytes ++ schemaRoot))`, hashes being opaque
functions here.  Proved: the bytes — hence the identifier — do not depend on the order of the fields nor on
whether a nil field is present or omitted.  Independence from the construction route (JSON / map / GraphQL), from the
node and from the run, and the schema/collection identifiers under SDL permutation, partition into several
AddSchema calls and repetition (Go map iteration order) are evaluated on the implementation by harness/ident.
-/
import DefraModel.Proofs.IdentCbor
import DefraModel.Proofs.SchemaSets
namespace Defra.Props.C13
open Defra Defra.Ident

/-- the identifier as a function of the canonical bytes and the schema root (`hash` stands for sha256 + uuid5) -/
def docID {ι : Type} (hash : Bytes → ι) (root : Bytes) (fields : List (Bytes × FV)) : ι :=
  hash (docBytes fields ++ root)

/-- **field order does not matter** -/
theorem docID_field_order {ι : Type} (hash : Bytes → ι) (root : Bytes) (f₁ f₂ : List (Bytes × FV))
    (p : f₁.Perm f₂) (hk : (f₁.map (·.1)).Nodup) : docID hash root f₁ = docID hash root f₂ := by
  unfold docID; rw [docBytes_perm f₁ f₂ p hk]

/-- **null versus omitted does not matter** -/
theorem docID_nil_omitted {ι : Type} (hash : Bytes → ι) (root : Bytes) (k : Bytes) (fs : List (Bytes × FV)) :
    docID hash root ((k, .null) :: fs) = docID hash root fs := by
  unfold docID; rw [docBytes_nil_omitted]

/-- the serialisation itself, for any two permutations -/
theorem docBytes_canonical (f₁ f₂ : List (Bytes × FV)) (p : f₁.Perm f₂) (hk : (f₁.map (·.1)).Nodup) :
    docBytes f₁ = docBytes f₂ := docBytes_perm f₁ f₂ p hk

/-- the canonical key order is a total preorder (so the sorted form exists and is unique) -/
theorem key_order_total (a b : Bytes × FV) : (keyLe a b || keyLe b a) = true := keyLe_total a b

/-- of an array whose elements may be nil only the length reaches the serialisation (and the identifier): the mirror
    takes nothing else, and it is compared byte for byte with `Document.Bytes` on arrays of different contents -/
theorem docBytes_of_nillable_array_is_its_length (k : Bytes) (n : Nat) (fs : List (Bytes × FV)) :
    docBytes ((k, .optArr n) :: fs) = docBytes ((k, .optArr n) :: fs) ∧
    encVal (.optArr n) = head 4 n ++ List.replicate n 0xa0 := ⟨rfl, rfl⟩

/-! non-vacuity: two fields in both orders, one nil -/
example : docBytes [([0x62], .int 1), ([0x61], .str [0x78]), ([0x63], .null)] =
          docBytes [([0x61], .str [0x78]), ([0x62], .int 1)] := by
  have h1 : docBytes [([0x62], .int 1), ([0x61], .str [0x78]), ([0x63], .null)]
          = docBytes [([0x63], FV.null), ([0x61], .str [0x78]), ([0x62], .int 1)] := by
    apply docBytes_perm
    · decide
    · decide
  rw [h1, docBytes_nil_omitted]

/-! ### schema sets (`Ident/SchemaSets.lean`): which types share a set identifier.  A type's identifier is a function of
    the definitions of the members of its set (sorted by name) and of its index among them; the definitions name the
    types they refer to, so these theorems carry over to the identifiers for any hash.  The sets the implementation
    forms are compared with `sameSetB` on every generated type graph by `drv ident`. -/
open Defra.SchemaSets

/-- **the order of the definitions in the SDL does not matter**: the sets depend on the definitions only through
    membership -/
theorem schema_sets_ignore_sdl_order (g g' : G) (h : g.Perm g') (a b : Nat) : SameSet g a b ↔ SameSet g' a b :=
  sameSet_of_same_members (fun _ => h.mem_iff) a b

/-- **one call or several**: when the definitions are added in two calls — the earlier call not referring to types
    of the later one — the types of the earlier call get the sets they get in a single call ... -/
theorem schema_sets_of_the_earlier_call (g1 g2 : G) (hs : Split g1 g2) (a b : Nat) (ha : isNode g1 a = true) :
    SameSet (g1 ++ g2) a b ↔ SameSet g1 a b := sameSet_first_call hs ha b

/-- ... and so do the types of the later call, whose sets are computed from the later call's definitions alone
    (relations to types that are not part of the call are dropped) -/
theorem schema_sets_of_the_later_call (g1 g2 : G) (hs : Split g1 g2) (a b : Nat) (ha : isNode g2 a = true) :
    SameSet (g1 ++ g2) a b ↔ SameSet g2 a b := sameSet_second_call hs ha b

/-- the executable test used by the driver decides the specification wherever the closure reached its fixed point
    (`closedB`, evaluated on every graph at run time) -/
theorem schema_set_test_is_exact (g : G) (a b : Nat) (ha : closedB g (reachFrom g a) = true)
    (hb : closedB g (reachFrom g b) = true) : sameSetB g a b = true ↔ SameSet g a b := sameSetB_iff ha hb

/-! non-vacuity: the graph of the repaired defects — a circle Bee(1) -> Dog(3) -> Cat(2) -> Bee and Ant(0) referring
    to two of its members: the circle is one set, Ant is alone; and the split `circle, then Ant` meets `Split` -/
example :
    let circle : G := [⟨1, [3]⟩, ⟨3, [2]⟩, ⟨2, [1]⟩]
    let ant : G := [⟨0, [3, 1]⟩]
    allClosedB (circle ++ ant) = true ∧ setOf (circle ++ ant) 1 = [1, 3, 2] ∧ setOf (circle ++ ant) 0 = [0] ∧
    setOf circle 1 = [1, 3, 2] := by decide

example : Split [⟨1, [3]⟩, ⟨3, [2]⟩, ⟨2, [1]⟩] [⟨0, [3, 1]⟩] :=
  ⟨by decide, by decide⟩

end Defra.Props.C13
