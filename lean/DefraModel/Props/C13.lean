/-
C13 — Document, schema and collection identifiers are pure functions of content.
`docBytes` mirrors `Document.Bytes()` (canonical CBOR of the non-nil field map) byte for byte (compared on every
generated document); a document identifier is `uuid5 (sha256 (docBytes ++ schemaRoot))`, hashes being opaque
functions here.  Proved: the bytes — hence the identifier — do not depend on the order of the fields nor on
whether a nil field is present or omitted.  Independence from the construction route (JSON / map / GraphQL), from the
node and from the run, and the schema/collection identifiers under SDL permutation, partition into several
AddSchema calls and repetition (Go map iteration order) are evaluated on the implementation by harness/ident.
-/
import DefraModel.Proofs.IdentCbor
namespace Defra.Props.C13
open Defra Defra.Ident

/-- the identifier as a function of the canonical bytes and the schema root (`hash` stands for sha256 + uuid5) -/
def docID {ι : Type} (hash : Bytes → ι) (root : Bytes) (fields : List (Bytes × FV)) : ι :=
  hash (docBytes fields ++ root)

/-- **field order does not matter** -/
theorem docID_field_order {ι : Type} (hash : Bytes → ι) (root : Bytes) (f₁ f₂ : List (Bytes × FV))
    (p : f₁.Perm f₂) (hk : (f₁.map (·.1)).Nodup) : docID hash root f₁ = docID hash root f₂ := by
  unfold docID; rw [docBytes_perm f₁ f₂ p hk]

/-- **null versus omitted does not matter** -/
theorem docID_nil_omitted {ι : Type} (hash : Bytes → ι) (root : Bytes) (k : Bytes) (fs : List (Bytes × FV)) :
    docID hash root ((k, .null) :: fs) = docID hash root fs := by
  unfold docID; rw [docBytes_nil_omitted]

/-- the serialisation itself, for any two permutations -/
theorem docBytes_canonical (f₁ f₂ : List (Bytes × FV)) (p : f₁.Perm f₂) (hk : (f₁.map (·.1)).Nodup) :
    docBytes f₁ = docBytes f₂ := docBytes_perm f₁ f₂ p hk

/-- the canonical key order is a total preorder (so the sorted form exists and is unique) -/
theorem key_order_total (a b : Bytes × FV) : (keyLe a b || keyLe b a) = true := keyLe_total a b

/-! non-vacuity: two fields in both orders, one nil -/
example : docBytes [([0x62], .int 1), ([0x61], .str [0x78]), ([0x63], .null)] =
          docBytes [([0x61], .str [0x78]), ([0x62], .int 1)] := by
  have h1 : docBytes [([0x62], .int 1), ([0x61], .str [0x78]), ([0x63], .null)]
          = docBytes [([0x63], FV.null), ([0x61], .str [0x78]), ([0x62], .int 1)] := by
    apply docBytes_perm
    · decide
    · decide
  rw [h1, docBytes_nil_omitted]

end Defra.Props.C13
