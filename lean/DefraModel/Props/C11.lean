import DefraModel.Encrypt
import DefraModel.Proofs.EncryptInv
import DefraModel.Proofs.EncryptComp

/-!
# C11 — encrypted fields never leave the node in clear

Theorems about the block-encryption model (`DefraModel/Encrypt.lean`), for every creation configuration, every
set of fields written at creation and every later history of updates, deletes and merges of concurrent
unencrypted heads:

* `doc_encrypted_never_clear` — document-level encryption: every field block the node ever writes carries an
  encryption link (also for a field first set by a later update).
* `field_encrypted_never_clear_partial` — field-level encryption of a field written at creation: every block the
  node ever writes for that field carries an encryption link.
* `field_listed_unset_written_clear` — the full field-level statement is FALSE of the model (and of the code): a
  field named in the configuration but first set by an update is written in clear (known finding).
* `keyless_stores_only_clear` / `keyless_stores_nothing_encrypted` — a receiver without keys stores only values of
  clear blocks, hence none of an encrypted field's local writes.
* `receiver_stores_only_readable` / `unheld_key_never_stored` / `more_keys_more_stored` / `all_keys_store_everything` —
  receivers holding some, more, or all of the keys.
* `key_holder_reads_back` — with the key, decrypting what was encrypted gives the written value.
-/
namespace Defra.Encrypt

/-! ## The property theorems -/

/-- **Document-level encryption.** For every configuration with `isDoc`, every set of fields written at creation
    and every later history, every field block written by the node carries an encryption link — including blocks
    of fields first set by a later update. -/
theorem doc_encrypted_never_clear (c : Cfg) (hd : c.isDoc = true) (fs : List FName) (ops : List Op) :
    ∀ b ∈ (run (some c) fs ops).blocks, b.remote = false → b.field.isSome → b.plain = none := by
  intro b hb hr hf
  have := (run_docInv c hd fs ops).1.blocks b hb hr hf
  unfold Blk.plain
  cases hfe : b.field with
  | none => rfl
  | some f => cases he : b.enc with
    | none => rw [he] at this; cases this
    | some k => rfl

/-- **Field-level encryption (partial).** For a field named in the configuration AND written by the creating
    save, every block the node ever writes for it carries an encryption link.
    Missing for the full statement: a named field that the creating save does not write (see
    `field_listed_unset_written_clear`). -/
theorem field_encrypted_never_clear_partial (c : Cfg) (f : FName) (hf : c.fields.contains f = true)
    (fs : List FName) (hm : f ∈ fs) (ops : List Op) :
    ∀ b ∈ (run (some c) fs ops).blocks, b.remote = false → b.field = some f → b.plain = none := by
  intro b hb hr hfb
  have hinv := run_fieldInv c f hf fs hm ops
  have := hinv.blocks b hb hr hfb
  unfold Blk.plain
  rw [hfb]
  cases he : b.enc with
  | none => rw [he] at this; cases this
  | some k => rfl

/-- The full field-level statement fails: field `b` is named in the configuration, the creating save writes only
    `a`, a later update writes `b` — in clear. The same history on the implementation is the known finding
    `field-level-first-set-by-update`. -/
theorem field_listed_unset_written_clear :
    ∃ b ∈ (run (some ⟨false, ["b"]⟩) ["a"] [.update ["b"]]).blocks,
      b.remote = false ∧ b.field = some "b" ∧ b.plain = some (1, "b") := by
  refine ⟨⟨some "b", 1, none, false⟩, ?_, rfl, rfl, rfl⟩
  decide

/-- **Key-less receiver.** Everything a node without keys writes to its own stores comes from a block that is in
    clear in the shared store. -/
theorem keyless_stores_only_clear (blocks : List Blk) :
    ∀ p ∈ stored [] blocks, ∃ b ∈ blocks, b.plain = some p := by
  intro p hp
  unfold stored at hp
  obtain ⟨b, hb, hbp⟩ := List.mem_filterMap.mp hp
  refine ⟨b, hb, ?_⟩
  unfold Blk.plain
  cases hf : b.field with
  | none => rw [hf] at hbp; cases hbp
  | some f =>
    rw [hf] at hbp
    simp only at hbp
    cases he : b.enc with
    | none =>
      simp only [canRead, he] at hbp
      simpa using hbp
    | some k =>
      simp [canRead, he] at hbp

/-- Hence, of a document-level encrypted document, a key-less receiver stores no value the author wrote. -/
theorem keyless_stores_nothing_encrypted (c : Cfg) (hd : c.isDoc = true) (fs : List FName) (ops : List Op) :
    ∀ p ∈ stored [] ((run (some c) fs ops).blocks.filter (fun b => !b.remote)), False := by
  intro p hp
  obtain ⟨b, hb, hpl⟩ := keyless_stores_only_clear _ p hp
  obtain ⟨hb1, hb2⟩ := List.mem_filter.mp hb
  have hr : b.remote = false := by simpa using hb2
  have hfs : b.field.isSome := by
    unfold Blk.plain at hpl
    cases hf : b.field with
    | none => rw [hf] at hpl; cases hpl
    | some f => rfl
  have := doc_encrypted_never_clear c hd fs ops b hb1 hr hfs
  rw [this] at hpl; cases hpl

/-- **a key-less receiver does not even see a document-level encrypted document**: after any history, every
    composite block the author wrote links a key (`CompEnc`, a third invariant by induction over the history), so
    from the author's blocks a node without keys can read no composite: the document is not visible there at all -/
theorem keyless_cannot_see_a_doc_encrypted_document (c : Cfg) (hd : c.isDoc = true) (fs : List FName) (ops : List Op) :
    docVisible [] ((run (some c) fs ops).blocks.filter (fun b => !b.remote)) = false := by
  unfold docVisible
  rw [List.any_eq_false]
  intro b hb
  obtain ⟨hb1, hb2⟩ := List.mem_filter.mp hb
  have hr : b.remote = false := by simpa using hb2
  cases hf : b.field with
  | some f => simp
  | none =>
    have he := run_compEnc c hd fs ops b hb1 hr hf
    cases hk : b.enc with
    | none => rw [hk] at he; cases he
    | some k => simp [canRead, hk]

/-! ### receivers holding some of the keys -/

/-- **a receiver stores only what it can read**: every value a node holding the key blocks `keys` writes to its own
    stores comes from a field block that is in clear in the shared store or whose linked key the node holds -/
theorem receiver_stores_only_readable (keys : List Key) (blocks : List Blk) :
    ∀ p ∈ stored keys blocks, ∃ b ∈ blocks, b.field = some p.2 ∧ b.op = p.1 ∧
      (b.enc = none ∨ ∃ k ∈ keys, b.enc = some k) := by
  intro p hp
  unfold stored at hp
  obtain ⟨b, hb, hbp⟩ := List.mem_filterMap.mp hp
  refine ⟨b, hb, ?_⟩
  cases hf : b.field with
  | none => simp [hf] at hbp
  | some f =>
    simp only [hf] at hbp
    by_cases hc : canRead keys b = true
    · simp only [hc, if_true, Option.some.injEq] at hbp
      subst hbp
      refine ⟨rfl, rfl, ?_⟩
      unfold canRead at hc
      cases he : b.enc with
      | none => exact Or.inl rfl
      | some k =>
        simp only [he] at hc
        exact Or.inr ⟨k, by simpa using hc, rfl⟩
    · simp [hc] at hbp

/-- **a value under a key the receiver does not hold is never stored**, whatever else it holds -/
theorem unheld_key_never_stored (keys : List Key) (blocks : List Blk) (k : Key) (hk : k ∉ keys)
    (op : Nat) (f : FName)
    (hall : ∀ b ∈ blocks, b.field = some f → b.op = op → b.enc = some k) : (op, f) ∉ stored keys blocks := by
  intro hp
  obtain ⟨b, hb, hf, ho, hr⟩ := receiver_stores_only_readable keys blocks (op, f) hp
  have he := hall b hb hf ho
  rcases hr with hn | ⟨k', hk', he'⟩
  · rw [hn] at he; cases he
  · rw [he'] at he
    cases he
    exact hk hk'

/-- more keys never lose a value: what a receiver stores grows with the keys it holds -/
theorem more_keys_more_stored (keys keys' : List Key) (hsub : ∀ k ∈ keys, k ∈ keys') (blocks : List Blk) :
    ∀ p ∈ stored keys blocks, p ∈ stored keys' blocks := by
  intro p hp
  unfold stored at hp ⊢
  obtain ⟨b, hb, hbp⟩ := List.mem_filterMap.mp hp
  refine List.mem_filterMap.mpr ⟨b, hb, ?_⟩
  cases hf : b.field with
  | none => simp [hf] at hbp
  | some f =>
    simp only [hf] at hbp ⊢
    by_cases hc : canRead keys b = true
    · have hc' : canRead keys' b = true := by
        unfold canRead at hc ⊢
        cases he : b.enc with
        | none => rfl
        | some k =>
          simp only [he] at hc ⊢
          have : k ∈ keys := by simpa using hc
          simpa using hsub k this
      simpa [hc, hc'] using hbp
    · simp [hc] at hbp

/-- **a holder of every linked key reads everything**: its stores receive the value of every field block -/
theorem all_keys_store_everything (keys : List Key) (blocks : List Blk)
    (hall : ∀ b ∈ blocks, ∀ k, b.enc = some k → k ∈ keys) :
    stored keys blocks = blocks.filterMap (fun b => b.field.map (fun f => (b.op, f))) := by
  unfold stored
  induction blocks with
  | nil => rfl
  | cons b rest ih =>
    have ih' := ih (fun b' hb' => hall b' (List.mem_cons_of_mem _ hb'))
    have hc : canRead keys b = true := by
      unfold canRead
      cases he : b.enc with
      | none => rfl
      | some k => simpa using hall b (List.mem_cons_self) k he
    cases hf : b.field with
    | none => simp [hf, ih']
    | some f => simp [hf, hc, ih']

/-- **Key holder.** Decrypting with the linked key what `encryptBlock` produced gives the written value back
    (for every cipher satisfying the soundness law assumed of AES-GCM). -/
theorem key_holder_reads_back {K P C} (c : Cipher K P C) (k : K) (p : P) : roundTrip c k p = some p :=
  c.sound k p

/-! ### non-vacuity: concrete histories meeting the hypotheses, and what the model says about them -/

/-- document-level, field `b` first set by an update: encrypted with the composite's key -/
example : ((run (some ⟨true, []⟩) ["a"] [.update ["b"]]).blocks.map (fun b => (b.field, b.enc.isSome, b.plain))) =
    [(some "a", true, none), (none, true, none), (some "b", true, none), (none, true, none)] := by decide

/-- field-level with a concurrent unencrypted twin: the update still inherits the field key -/
example : ((run (some ⟨false, ["a"]⟩) ["a"] [.twin ["a"], .update ["a"]]).blocks.filter (fun b => !b.remote)).map
    (fun b => (b.field, b.enc.isSome)) = [(some "a", true), (none, false), (some "a", true), (none, false)] := by decide

/-- without encryption everything is clear -/
example : (run none ["a"] [.update ["a"]]).blocks.filterMap Blk.plain = [(0, "a"), (1, "a")] := by decide

/-- a receiver holding only the key of field `a` of a field-level encrypted document stores `a`, not `b` -/
example : stored [⟨0, some "a"⟩] (run (some ⟨false, ["a", "b"]⟩) ["a", "b"] []).blocks = [(0, "a")] := by decide
example : stored [⟨0, some "a"⟩, ⟨1, some "b"⟩] (run (some ⟨false, ["a", "b"]⟩) ["a", "b"] []).blocks = [(0, "a"), (0, "b")] := by decide

/-- document-level: invisible without keys, visible with the document key -/
example : docVisible [] (run (some ⟨true, []⟩) ["a"] [.update ["b"], .delete]).blocks = false ∧
    docVisible [⟨1, none⟩] (run (some ⟨true, []⟩) ["a"] [.update ["b"], .delete]).blocks = true := by decide

/-- the abstract cipher has a model -/
example : ∃ c : Cipher Nat Nat (Nat × Nat), ∀ k p, roundTrip c k p = some p :=
  ⟨⟨fun k p => (k, p), fun k c => if c.1 = k then some c.2 else none, by intro k p; simp⟩, by intro k p; simp [roundTrip]⟩

end Defra.Encrypt
