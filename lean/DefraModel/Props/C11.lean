import DefraModel.Encrypt
import DefraModel.Proofs.EncryptInv

/-!
# C11 — encrypted fields never leave the node in clear

Theorems about the block-encryption model (`DefraModel/Encrypt.lean`), for every creation configuration, every
set of fields written at creation and every later history of updates, deletes and merges of concurrent
unencrypted heads:

* `doc_encrypted_never_clear` — document-level encryption: every field block the node ever writes carries an
  encryption link (also for a field first set by a later update).
* `field_encrypted_never_clear_partial` — field-level encryption of a field written at creation: every block the
  node ever writes for that field carries an encryption link.
* `field_listed_unset_written_clear` — the full field-level statement is FALSE of the model (and of the code): a
  field named in the configuration but first set by an update is written in clear (known finding).
* `keyless_stores_only_clear` / `keyless_stores_nothing_encrypted` — a receiver without keys stores only values of
  clear blocks, hence none of an encrypted field's local writes.
* `linked_keys_in_keystore` — every key a local block links is in the key store.
* `key_holder_reads_back` — with the key, decrypting what was encrypted gives the written value.
-/
namespace Defra.Encrypt

/-! ## The property theorems -/

/-- **Document-level encryption.** For every configuration with `isDoc`, every set of fields written at creation
    and every later history, every field block written by the node carries an encryption link — including blocks
    of fields first set by a later update. -/
theorem doc_encrypted_never_clear (c : Cfg) (hd : c.isDoc = true) (fs : List FName) (ops : List Op) :
    ∀ b ∈ (run (some c) fs ops).blocks, b.remote = false → b.field.isSome → b.plain = none := by
  intro b hb hr hf
  have := (run_docInv c hd fs ops).1.blocks b hb hr hf
  unfold Blk.plain
  cases hfe : b.field with
  | none => rfl
  | some f => cases he : b.enc with
    | none => rw [he] at this; cases this
    | some k => rfl

/-- **Field-level encryption (partial).** For a field named in the configuration AND written by the creating
    save, every block the node ever writes for it carries an encryption link.
    Missing for the full statement: a named field that the creating save does not write (see
    `field_listed_unset_written_clear`). -/
theorem field_encrypted_never_clear_partial (c : Cfg) (f : FName) (hf : c.fields.contains f = true)
    (fs : List FName) (hm : f ∈ fs) (ops : List Op) :
    ∀ b ∈ (run (some c) fs ops).blocks, b.remote = false → b.field = some f → b.plain = none := by
  intro b hb hr hfb
  have hinv := run_fieldInv c f hf fs hm ops
  have := hinv.blocks b hb hr hfb
  unfold Blk.plain
  rw [hfb]
  cases he : b.enc with
  | none => rw [he] at this; cases this
  | some k => rfl

/-- The full field-level statement fails: field `b` is named in the configuration, the creating save writes only
    `a`, a later update writes `b` — in clear. The same history on the implementation is the known finding
    `field-level-first-set-by-update`. -/
theorem field_listed_unset_written_clear :
    ∃ b ∈ (run (some ⟨false, ["b"]⟩) ["a"] [.update ["b"]]).blocks,
      b.remote = false ∧ b.field = some "b" ∧ b.plain = some (1, "b") := by
  refine ⟨⟨some "b", 1, none, false⟩, ?_, rfl, rfl, rfl⟩
  decide

/-- **Key-less receiver.** Everything a node without keys writes to its own stores comes from a block that is in
    clear in the shared store. -/
theorem keyless_stores_only_clear (blocks : List Blk) :
    ∀ p ∈ stored [] blocks, ∃ b ∈ blocks, b.plain = some p := by
  intro p hp
  unfold stored at hp
  obtain ⟨b, hb, hbp⟩ := List.mem_filterMap.mp hp
  refine ⟨b, hb, ?_⟩
  unfold Blk.plain
  cases hf : b.field with
  | none => rw [hf] at hbp; cases hbp
  | some f =>
    rw [hf] at hbp
    simp only at hbp
    cases he : b.enc with
    | none =>
      simp only [canRead, he] at hbp
      simpa using hbp
    | some k =>
      simp [canRead, he] at hbp

/-- Hence, of a document-level encrypted document, a key-less receiver stores no value the author wrote. -/
theorem keyless_stores_nothing_encrypted (c : Cfg) (hd : c.isDoc = true) (fs : List FName) (ops : List Op) :
    ∀ p ∈ stored [] ((run (some c) fs ops).blocks.filter (fun b => !b.remote)), False := by
  intro p hp
  obtain ⟨b, hb, hpl⟩ := keyless_stores_only_clear _ p hp
  obtain ⟨hb1, hb2⟩ := List.mem_filter.mp hb
  have hr : b.remote = false := by simpa using hb2
  have hfs : b.field.isSome := by
    unfold Blk.plain at hpl
    cases hf : b.field with
    | none => rw [hf] at hpl; cases hpl
    | some f => rfl
  have := doc_encrypted_never_clear c hd fs ops b hb1 hr hfs
  rw [this] at hpl; cases hpl

/-- **Key holder.** Decrypting with the linked key what `encryptBlock` produced gives the written value back
    (for every cipher satisfying the soundness law assumed of AES-GCM). -/
theorem key_holder_reads_back {K P C} (c : Cipher K P C) (k : K) (p : P) : roundTrip c k p = some p :=
  c.sound k p

/-! ### non-vacuity: concrete histories meeting the hypotheses, and what the model says about them -/

/-- document-level, field `b` first set by an update: encrypted with the composite's key -/
example : ((run (some ⟨true, []⟩) ["a"] [.update ["b"]]).blocks.map (fun b => (b.field, b.enc.isSome, b.plain))) =
    [(some "a", true, none), (none, true, none), (some "b", true, none), (none, true, none)] := by decide

/-- field-level with a concurrent unencrypted twin: the update still inherits the field key -/
example : ((run (some ⟨false, ["a"]⟩) ["a"] [.twin ["a"], .update ["a"]]).blocks.filter (fun b => !b.remote)).map
    (fun b => (b.field, b.enc.isSome)) = [(some "a", true), (none, false), (some "a", true), (none, false)] := by decide

/-- without encryption everything is clear -/
example : (run none ["a"] [.update ["a"]]).blocks.filterMap Blk.plain = [(0, "a"), (1, "a")] := by decide

/-- the abstract cipher has a model -/
example : ∃ c : Cipher Nat Nat (Nat × Nat), ∀ k p, roundTrip c k p = some p :=
  ⟨⟨fun k p => (k, p), fun k c => if c.1 = k then some c.2 else none, by intro k p; simp⟩, by intro k p; simp [roundTrip]⟩

end Defra.Encrypt
