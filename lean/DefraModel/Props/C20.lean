/-
C20 — Update notifications are complete, ordered and only for committed changes.
Two models: the transaction monad of C05 (publication = commit-success callbacks) and the event bus
(DefraModel/Events.lean, mirror of event/channel_bus.go).
-/
import DefraModel.Proofs.TxnAtomic
import DefraModel.Proofs.EventsFifo
import DefraModel.Proofs.EventsExact
namespace Defra.Props.C20
open Defra Defra.Kv
open Defra.Events (Bus Cmd Name SubscribedTo matching fifo pubs Unsubscribed)

/-- the body of one document write (`collection.save` / `applyDelete`): store the commit's block, register
    ONE update notification for it, then whatever else the write does -/
def writeDoc (cid : Nat) (blockKey : Key) (blockBytes : Val) (rest : Prog Unit) : Prog Unit :=
  .set blockKey blockBytes (.onSuccess cid rest)

/-- a request that writes several documents in one transaction -/
def writeDocs : List (Nat × Key × Val) → Prog Unit
  | [] => .pure ()
  | (cid, k, v) :: more => writeDoc cid k v (writeDocs more)

theorem run_writeDocs_ok (docs : List (Nat × Key × Val)) (t : Txn) :
    run (fun _ => false) (writeDocs docs) t =
      (.ok (), { t with writes := t.writes ++ docs.map (fun d => (d.2.1, some d.2.2)),
                        callbacks := t.callbacks ++ docs.map (·.1),
                        ticks := t.ticks + docs.length }) := by
  induction docs generalizing t with
  | nil => simp [writeDocs, run]
  | cons d more ih =>
    obtain ⟨cid, k, v⟩ := d
    simp only [writeDocs, writeDoc, run, Bool.false_eq_true, if_false, ih]
    simp only [List.map_cons, List.length_cons, List.append_assoc, List.cons_append, List.nil_append,
      Prod.mk.injEq, true_and]
    congr 1
    omega

/-- **exactly one notification per new document-level commit, in request order, or none at all**:
    a multi-document request publishes, under ANY storage faults, either nothing (and stores nothing) or
    exactly the commits it wrote, each once, in the order it wrote them -/
theorem one_event_per_commit (fails : Nat → Bool) (docs : List (Nat × Key × Val)) (store : Store) :
    ((withTxn fails (writeDocs docs) store).published = [] ∧ (withTxn fails (writeDocs docs) store).store = store) ∨
    ((withTxn fails (writeDocs docs) store).published = docs.map (·.1)) := by
  cases hr : (withTxn fails (writeDocs docs) store).res with
  | err =>
    rcases withTxn_cases fails (writeDocs docs) store with ⟨_, hs, hp⟩ | ⟨a, _, _, _, h2, _, _⟩
    · exact Or.inl ⟨hp, hs⟩
    · rw [h2] at hr; cases hr
  | ok a =>
    rcases withTxn_cases fails (writeDocs docs) store with ⟨he, _, _⟩ | ⟨a', t, hrun, _, _, _, h4⟩
    · rw [he] at hr; cases hr
    · have hff := run_ok_eq_faultfree fails _ _ a' t hrun
      rw [run_writeDocs_ok] at hff
      have : t.callbacks = docs.map (·.1) := by
        have := congrArg (fun x => x.2.callbacks) hff
        simpa using this.symm
      exact Or.inr (by rw [h4, this])

/-- the announced block is in the store by the time the notification exists -/
theorem announced_block_is_stored (fails : Nat → Bool) (cid : Nat) (k : Key) (v : Val) (store : Store)
    (h : cid ∈ (withTxn fails (writeDocs [(cid, k, v)]) store).published) :
    (withTxn fails (writeDocs [(cid, k, v)]) store).store k = some v := by
  rcases withTxn_cases fails (writeDocs [(cid, k, v)]) store with ⟨_, _, hp⟩ | ⟨a', t, hrun, _, _, h3, _⟩
  · rw [hp] at h; cases h
  · have hff := run_ok_eq_faultfree fails _ _ a' t hrun
    rw [run_writeDocs_ok] at hff
    have hw : t.writes = [(k, some v)] := by
      have := congrArg (fun x => x.2.writes) hff
      simpa using this.symm
    have hs : t.snapshot = store := by
      have := congrArg (fun x => x.2.snapshot) hff
      simpa using this.symm
    rw [h3]
    simp [Txn.view, hw, hs, applyWrites]

/-- failed or rolled-back calls contribute no notification to a history -/
theorem rolled_back_publishes_nothing {α : Type} (f : Nat → Bool) (p : Prog α) (s : Store)
    (h : (withTxn f p s).res = .err) : (withTxn f p s).published = [] := by
  rcases withTxn_cases f p s with ⟨_, _, hp⟩ | ⟨a, _, _, _, h2, _, _⟩
  · exact hp
  · rw [h2] at h; cases h

/-- **every subscriber sees the publications in publication order**, whatever other subscribers do -/
theorem fifo_per_subscriber (cmds : List Cmd) (b : Bus) (id : Nat) (names : List Name)
    (hsub : SubscribedTo b id names) (hkeep : ∀ c ∈ cmds, c.keeps id = true) :
    (Events.run b cmds).received id = b.received id ++ matching names cmds :=
  (fifo cmds b id names hsub hkeep).1

/-- two subscribers of the same event names that are both subscribed over a stretch of commands receive the
    same sequence over that stretch -/
theorem subscribers_agree (cmds : List Cmd) (b : Bus) (i j : Nat) (names : List Name)
    (hi : SubscribedTo b i names) (hj : SubscribedTo b j names)
    (ki : ∀ c ∈ cmds, c.keeps i = true) (kj : ∀ c ∈ cmds, c.keeps j = true) :
    ((Events.run b cmds).received i).drop (b.received i).length =
    ((Events.run b cmds).received j).drop (b.received j).length := by
  rw [(fifo cmds b i names hi ki).1, (fifo cmds b j names hj kj).1]
  simp

/-! ### branchable collections: one more notification per write, for the collection-level commit -/

/-- one document write on a branchable collection (`collection.save`, l.798-855): the document-level block,
    its notification, then the collection-level block that links to it and ITS notification -/
structure BWrite where
  cid : Nat
  key : Key
  bytes : Val
  colCid : Nat
  colKey : Key
  colBytes : Val

def writeDocsB : List BWrite → Prog Unit
  | [] => .pure ()
  | w :: more => .set w.key w.bytes (.onSuccess w.cid (.set w.colKey w.colBytes (.onSuccess w.colCid (writeDocsB more))))

theorem run_writeDocsB_callbacks (ws : List BWrite) (t : Txn) :
    (run (fun _ => false) (writeDocsB ws) t).1 = .ok () ∧
    (run (fun _ => false) (writeDocsB ws) t).2.callbacks = t.callbacks ++ ws.flatMap (fun w => [w.cid, w.colCid]) := by
  induction ws generalizing t with
  | nil => simp [writeDocsB, run]
  | cons w more ih =>
    simp only [writeDocsB, run, Bool.false_eq_true, if_false]
    refine ⟨(ih _).1, ?_⟩
    rw [(ih _).2]
    simp [List.flatMap_cons, List.append_assoc]

/-- **branchable collections: exactly two notifications per written document — the document-level commit
    and then the collection-level commit — in write order, or none at all**, under ANY storage faults -/
theorem two_events_per_branchable_write (fails : Nat → Bool) (ws : List BWrite) (store : Store) :
    ((withTxn fails (writeDocsB ws) store).published = [] ∧ (withTxn fails (writeDocsB ws) store).store = store) ∨
    ((withTxn fails (writeDocsB ws) store).published = ws.flatMap (fun w => [w.cid, w.colCid])) := by
  rcases withTxn_cases fails (writeDocsB ws) store with ⟨_, hs, hp⟩ | ⟨a', t, hrun, _, _, _, h4⟩
  · exact Or.inl ⟨hp, hs⟩
  · have hff := run_ok_eq_faultfree fails _ _ a' t hrun
    have hcb := (run_writeDocsB_callbacks ws { snapshot := store }).2
    rw [hff] at hcb
    exact Or.inr (by rw [h4, hcb]; simp)

/-! ### the bus over whole histories -/

/-- **no duplicates, nothing invented, nothing out of order — over any history**: whatever any subscriber
    does (subscribe, unsubscribe, re-subscribe, any number of times), whatever the others do and whenever
    the bus is closed, what it received is an in-order sub-sequence of the publications queued -/
theorem received_is_a_subsequence_of_published (cmds : List Cmd) (b : Bus) (id : Nat) :
    ∃ l, (Events.run b cmds).received id = b.received id ++ l ∧ l.Sublist (pubs cmds) :=
  Events.received_sublist cmds b id

/-- a subscriber that is not subscribed receives nothing, whatever is published -/
theorem nothing_without_a_subscription (cmds : List Cmd) (b : Bus) (id : Nat)
    (h : Unsubscribed b id) (hk : ∀ c ∈ cmds, c.notSubscribe id = true) :
    (Events.run b cmds).received id = b.received id :=
  Events.unsubscribed_receives_nothing cmds b id h hk

/-- a closed bus delivers nothing -/
theorem nothing_after_close (cmds : List Cmd) (b : Bus) (h : b.closed = true) : Events.run b cmds = b :=
  Events.run_closed cmds b h

theorem run_append (b : Bus) (xs ys : List Cmd) : Events.run b (xs ++ ys) = Events.run (Events.run b xs) ys := by
  simp [Events.run, List.foldl_append]

/-- **the lifetime of a subscription**: subscribe, any stretch of commands of the others (publications,
    other subscribers coming and going), unsubscribe, then anything that is not a new subscription of the
    same id: the subscriber has received EXACTLY the matching publications of the stretch, in order — the
    ones before it subscribed and after it unsubscribed are not delivered, none in between is lost -/
theorem subscription_lifetime (b : Bus) (id : Nat) (names : List Name) (mid post : List Cmd)
    (hopen : b.closed = false)
    (hmid : ∀ c ∈ mid, c.keeps id = true) (hpost : ∀ c ∈ post, c.notSubscribe id = true) :
    (Events.run b (Cmd.subscribe id names :: mid ++ [Cmd.unsubscribe id] ++ post)).received id =
      b.received id ++ matching names mid := by
  have hs := Events.subscribe_subscribes b id names hopen
  obtain ⟨hr, hsub⟩ := fifo mid (Events.step b (.subscribe id names)) id names hs hmid
  have h0 : (Events.step b (.subscribe id names)).received id = b.received id := by simp [Events.step, hopen]
  have e : Events.run b (Cmd.subscribe id names :: mid ++ [Cmd.unsubscribe id] ++ post) =
      Events.run (Events.step (Events.run (Events.step b (.subscribe id names)) mid) (.unsubscribe id)) post := by
    show Events.run (Events.step b (.subscribe id names)) (mid ++ [Cmd.unsubscribe id] ++ post) = _
    rw [run_append, run_append]; rfl
  rw [e]
  have hun : Unsubscribed (Events.step (Events.run (Events.step b (.subscribe id names)) mid) (.unsubscribe id)) id := by
    rcases Events.unsubscribe_unsubscribes (Events.run (Events.step b (.subscribe id names)) mid) id with h | h
    · exact h
    · rw [hsub.1] at h; cases h
  rw [Events.unsubscribed_receives_nothing post _ id hun hpost]
  have key : ∀ B : Bus, (Events.step B (.unsubscribe id)).received id = B.received id := by
    intro B; simp only [Events.step]; split <;> rfl
  rw [key, hr, h0]

/-- **a GraphQL subscription yields exactly one result per matching committed change**: the subscription
    handler (`internal/db/subscriptions.go: handleSubscription`) evaluates its request once per update event it
    receives and yields a result iff the announced document passes the filter; over a stretch in which it is
    subscribed its results are therefore exactly the filter-passing publications, one each, in order -/
theorem subscription_results (pass : Name × Nat → Bool) (cmds : List Cmd) (b : Bus) (id : Nat) (names : List Name)
    (hsub : SubscribedTo b id names) (hkeep : ∀ c ∈ cmds, c.keeps id = true) :
    ((Events.run b cmds).received id).filter pass =
      (b.received id).filter pass ++ (matching names cmds).filter pass := by
  rw [(fifo cmds b id names hsub hkeep).1, List.filter_append]

/-! non-vacuity -/
example : (withTxn (fun _ => false) (writeDocs [(1, [1], [10]), (2, [2], [20])]) (fun _ => none)).published = [1, 2] := by
  decide
example : (withTxn (fun n => n == 2) (writeDocs [(1, [1], [10]), (2, [2], [20])]) (fun _ => none)).published = [] := by
  decide
example : ((Events.run {} [.subscribe 1 ["update"], .subscribe 2 ["*"], .publish "update" 7, .unsubscribe 2,
    .publish "update" 8, .publish "merge" 9]).received 1) = [("update", 7), ("update", 8)] := by decide

example : (withTxn (fun _ => false) (writeDocsB [⟨1, [1], [10], 2, [2], [20]⟩, ⟨3, [3], [30], 4, [4], [40]⟩]) (fun _ => none)).published
    = [1, 2, 3, 4] := by decide
example : (withTxn (fun n => n == 4) (writeDocsB [⟨1, [1], [10], 2, [2], [20]⟩, ⟨3, [3], [30], 4, [4], [40]⟩]) (fun _ => none)).published
    = [] := by decide
/-- a subscriber that comes, goes and comes back: the publication in between is not delivered -/
example : ((Events.run {} [.subscribe 1 ["update"], .publish "update" 7, .unsubscribe 1, .publish "update" 8,
    .subscribe 1 ["update"], .publish "update" 9, .close, .publish "update" 10]).received 1) = [("update", 7), ("update", 9)] := by decide

end Defra.Props.C20
