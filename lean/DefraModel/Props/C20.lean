/-
C20 — Update notifications are complete, ordered and only for committed changes.
Two models: the transaction monad of C05 (publication = commit-success callbacks) and the event bus
(DefraModel/Events.lean, mirror of event/channel_bus.go).
-/
import DefraModel.Proofs.TxnAtomic
import DefraModel.Proofs.EventsFifo
namespace Defra.Props.C20
open Defra Defra.Kv
open Defra.Events (Bus Cmd Name SubscribedTo matching fifo)

/-- the body of one document write (`collection.save` / `applyDelete`): store the commit's block, register
    ONE update notification for it, then whatever else the write does -/
def writeDoc (cid : Nat) (blockKey : Key) (blockBytes : Val) (rest : Prog Unit) : Prog Unit :=
  .set blockKey blockBytes (.onSuccess cid rest)

/-- a request that writes several documents in one transaction -/
def writeDocs : List (Nat × Key × Val) → Prog Unit
  | [] => .pure ()
  | (cid, k, v) :: more => writeDoc cid k v (writeDocs more)

theorem run_writeDocs_ok (docs : List (Nat × Key × Val)) (t : Txn) :
    run (fun _ => false) (writeDocs docs) t =
      (.ok (), { t with writes := t.writes ++ docs.map (fun d => (d.2.1, some d.2.2)),
                        callbacks := t.callbacks ++ docs.map (·.1),
                        ticks := t.ticks + docs.length }) := by
  induction docs generalizing t with
  | nil => simp [writeDocs, run]
  | cons d more ih =>
    obtain ⟨cid, k, v⟩ := d
    simp only [writeDocs, writeDoc, run, Bool.false_eq_true, if_false, ih]
    simp only [List.map_cons, List.length_cons, List.append_assoc, List.cons_append, List.nil_append,
      Prod.mk.injEq, true_and]
    congr 1
    omega

/-- **exactly one notification per new document-level commit, in request order, or none at all**:
    a multi-document request publishes, under ANY storage faults, either nothing (and stores nothing) or
    exactly the commits it wrote, each once, in the order it wrote them -/
theorem one_event_per_commit (fails : Nat → Bool) (docs : List (Nat × Key × Val)) (store : Store) :
    ((withTxn fails (writeDocs docs) store).published = [] ∧ (withTxn fails (writeDocs docs) store).store = store) ∨
    ((withTxn fails (writeDocs docs) store).published = docs.map (·.1)) := by
  cases hr : (withTxn fails (writeDocs docs) store).res with
  | err =>
    rcases withTxn_cases fails (writeDocs docs) store with ⟨_, hs, hp⟩ | ⟨a, _, _, _, h2, _, _⟩
    · exact Or.inl ⟨hp, hs⟩
    · rw [h2] at hr; cases hr
  | ok a =>
    rcases withTxn_cases fails (writeDocs docs) store with ⟨he, _, _⟩ | ⟨a', t, hrun, _, _, _, h4⟩
    · rw [he] at hr; cases hr
    · have hff := run_ok_eq_faultfree fails _ _ a' t hrun
      rw [run_writeDocs_ok] at hff
      have : t.callbacks = docs.map (·.1) := by
        have := congrArg (fun x => x.2.callbacks) hff
        simpa using this.symm
      exact Or.inr (by rw [h4, this])

/-- the announced block is in the store by the time the notification exists -/
theorem announced_block_is_stored (fails : Nat → Bool) (cid : Nat) (k : Key) (v : Val) (store : Store)
    (h : cid ∈ (withTxn fails (writeDocs [(cid, k, v)]) store).published) :
    (withTxn fails (writeDocs [(cid, k, v)]) store).store k = some v := by
  rcases withTxn_cases fails (writeDocs [(cid, k, v)]) store with ⟨_, _, hp⟩ | ⟨a', t, hrun, _, _, h3, _⟩
  · rw [hp] at h; cases h
  · have hff := run_ok_eq_faultfree fails _ _ a' t hrun
    rw [run_writeDocs_ok] at hff
    have hw : t.writes = [(k, some v)] := by
      have := congrArg (fun x => x.2.writes) hff
      simpa using this.symm
    have hs : t.snapshot = store := by
      have := congrArg (fun x => x.2.snapshot) hff
      simpa using this.symm
    rw [h3]
    simp [Txn.view, hw, hs, applyWrites]

/-- failed or rolled-back calls contribute no notification to a history -/
theorem rolled_back_publishes_nothing {α : Type} (f : Nat → Bool) (p : Prog α) (s : Store)
    (h : (withTxn f p s).res = .err) : (withTxn f p s).published = [] := by
  rcases withTxn_cases f p s with ⟨_, _, hp⟩ | ⟨a, _, _, _, h2, _, _⟩
  · exact hp
  · rw [h2] at h; cases h

/-- **every subscriber sees the publications in publication order**, whatever other subscribers do -/
theorem fifo_per_subscriber (cmds : List Cmd) (b : Bus) (id : Nat) (names : List Name)
    (hsub : SubscribedTo b id names) (hkeep : ∀ c ∈ cmds, c.keeps id = true) :
    (Events.run b cmds).received id = b.received id ++ matching names cmds :=
  (fifo cmds b id names hsub hkeep).1

/-- two subscribers of the same event names that are both subscribed over a stretch of commands receive the
    same sequence over that stretch -/
theorem subscribers_agree (cmds : List Cmd) (b : Bus) (i j : Nat) (names : List Name)
    (hi : SubscribedTo b i names) (hj : SubscribedTo b j names)
    (ki : ∀ c ∈ cmds, c.keeps i = true) (kj : ∀ c ∈ cmds, c.keeps j = true) :
    ((Events.run b cmds).received i).drop (b.received i).length =
    ((Events.run b cmds).received j).drop (b.received j).length := by
  rw [(fifo cmds b i names hi ki).1, (fifo cmds b j names hj kj).1]
  simp

/-! non-vacuity -/
example : (withTxn (fun _ => false) (writeDocs [(1, [1], [10]), (2, [2], [20])]) (fun _ => none)).published = [1, 2] := by
  decide
example : (withTxn (fun n => n == 2) (writeDocs [(1, [1], [10]), (2, [2], [20])]) (fun _ => none)).published = [] := by
  decide
example : ((Events.run {} [.subscribe 1 ["update"], .subscribe 2 ["*"], .publish "update" 7, .unsubscribe 2,
    .publish "update" 8, .publish "merge" 9]).received 1) = [("update", 7), ("update", 8)] := by decide

end Defra.Props.C20
