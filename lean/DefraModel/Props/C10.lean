import DefraModel.Acp

/-!
# C10 — documents you may not read are invisible through every query path

For the access-control model (`DefraModel/Acp.lean`), for every database, requester and argument:

* `*_ignores_unreadable` — every access path (scan, scan with deleted, index lookup, by-id, time travel, both join
  directions, count, commit history) gives the same answer on the database and on the database that never
  contained the documents the requester cannot read;
* `unreadable_insert_invisible` — inserting an unreadable document anywhere changes no path's answer;
* `denied_update_changes_nothing`, `denied_delete_changes_nothing` — a mutation attempt without the permission
  leaves the database unchanged and reports `denied`, the same answer as for a document that does not exist;
* `grant_visible_next`, `revoke_invisible_next` — a grant makes the document readable, and revoking the last
  relation makes it unreadable, in the state the next request sees.
-/
namespace Defra.Acp

theorem restrict_idem (w : Who) (db : DB) : restrict w (restrict w db) = restrict w db := by
  simp [restrict, List.filter_filter]

/-- filtering with the permission conjoined sees only readable documents -/
theorem filter_and_read (w : Who) (db : DB) (p : Doc → Bool) :
    db.filter (fun d => p d && canRead w d) = (restrict w db).filter (fun d => p d && canRead w d) := by
  unfold restrict
  rw [List.filter_filter]
  congr 1
  funext d
  cases p d <;> cases canRead w d <;> rfl

theorem filter_then_read (w : Who) (db : DB) (p : Doc → Bool) :
    (db.filter p).filter (canRead w) = ((restrict w db).filter p).filter (canRead w) := by
  unfold restrict
  simp only [List.filter_filter]
  congr 1
  funext d
  cases p d <;> cases canRead w d <;> rfl

theorem scan_ignores_unreadable (w : Who) (db : DB) (col : Nat) : scan w db col = scan w (restrict w db) col := by
  unfold scan
  have := filter_and_read w db (fun d => d.col == col && !d.deleted)
  simp only [Bool.and_assoc] at this ⊢
  rw [this]

theorem scanAll_ignores_unreadable (w : Who) (db : DB) (col : Nat) :
    scanAll w db col = scanAll w (restrict w db) col := by
  unfold scanAll
  rw [filter_and_read w db (fun d => d.col == col)]

theorem indexLookup_ignores_unreadable (w : Who) (db : DB) (v : String) :
    indexLookup w db v = indexLookup w (restrict w db) v := by
  unfold indexLookup indexEntries
  rw [filter_then_read]

theorem byId_ignores_unreadable (w : Who) (db : DB) (l : String) : byId w db l = byId w (restrict w db) l := by
  unfold byId
  rw [filter_then_read]

theorem timeTravel_ignores_unreadable (w : Who) (db : DB) (l : String) :
    timeTravel w db l = timeTravel w (restrict w db) l := by
  unfold timeTravel
  rw [filter_then_read]

theorem timeTravelCollection_ignores_unreadable (w : Who) (db : DB) (col : Nat) :
    timeTravelCollection w db col = timeTravelCollection w (restrict w db) col := by
  unfold timeTravelCollection
  rw [filter_then_read]

theorem count_ignores_unreadable (w : Who) (db : DB) (col : Nat) : count w db col = count w (restrict w db) col := by
  unfold count
  rw [scan_ignores_unreadable]

theorem commitsByCid_ignores_unreadable (w : Who) (db : DB) (l : String) :
    commitsByCid w db l = commitsByCid w (restrict w db) l := by
  unfold commitsByCid restrict
  simp only [List.filter_filter]
  congr 2
  funext d
  cases canRead w d <;> simp

theorem commits_ignores_unreadable (w : Who) (db : DB) : commits w db = commits w (restrict w db) := by
  unfold commits
  have : restrict w db = db.filter (canRead w) := rfl
  rw [this, List.filter_filter]
  simp

theorem joinChildren_ignores_unreadable (w : Who) (db : DB) :
    joinChildren w db = joinChildren w (restrict w db) := by
  unfold joinChildren
  have h1 := filter_and_read w db (fun a => a.col == 0 && !a.deleted)
  simp only [Bool.and_assoc] at h1 ⊢
  rw [h1]
  congr 1
  funext a
  rw [filter_then_read]

theorem joinParent_ignores_unreadable (w : Who) (db : DB) :
    joinParent w db = joinParent w (restrict w db) := by
  unfold joinParent
  have h1 := filter_and_read w db (fun b => b.col == 1 && !b.deleted)
  simp only [Bool.and_assoc] at h1 ⊢
  rw [h1]
  congr 1
  funext b
  rw [filter_then_read]

/-- Inserting a document the requester cannot read, anywhere, does not change the restricted database — hence (by
    the theorems above) no access path's answer. -/
theorem unreadable_insert_invisible (w : Who) (db1 db2 : DB) (d : Doc) (h : canRead w d = false) :
    restrict w (db1 ++ d :: db2) = restrict w (db1 ++ db2) := by
  simp [restrict, List.filter_append, List.filter_cons, h]

/-- Two databases that agree on what the requester can read answer every path alike (scan shown; the others follow
    from their `_ignores_unreadable` theorem the same way). -/
theorem same_readable_same_answers (w : Who) (db db' : DB) (h : restrict w db = restrict w db') (col : Nat) (v l : String) :
    scan w db col = scan w db' col ∧ scanAll w db col = scanAll w db' col ∧ indexLookup w db v = indexLookup w db' v ∧
    byId w db l = byId w db' l ∧ timeTravel w db l = timeTravel w db' l ∧ joinChildren w db = joinChildren w db' ∧
    joinParent w db = joinParent w db' ∧ count w db col = count w db' col ∧ commits w db = commits w db' := by
  refine ⟨?_, ?_, ?_, ?_, ?_, ?_, ?_, ?_, ?_⟩
  · rw [scan_ignores_unreadable, h, ← scan_ignores_unreadable]
  · rw [scanAll_ignores_unreadable, h, ← scanAll_ignores_unreadable]
  · rw [indexLookup_ignores_unreadable, h, ← indexLookup_ignores_unreadable]
  · rw [byId_ignores_unreadable, h, ← byId_ignores_unreadable]
  · rw [timeTravel_ignores_unreadable, h, ← timeTravel_ignores_unreadable]
  · rw [joinChildren_ignores_unreadable, h, ← joinChildren_ignores_unreadable]
  · rw [joinParent_ignores_unreadable, h, ← joinParent_ignores_unreadable]
  · rw [count_ignores_unreadable, h, ← count_ignores_unreadable]
  · rw [commits_ignores_unreadable, h, ← commits_ignores_unreadable]

/-! ### mutations -/

theorem denied_update_changes_nothing (db : DB) (w : Who) (l : String) (nm : Option String) (d : Doc)
    (hf : find db l = some d) (hp : canUpdate w d = false) :
    step db (.update w l nm) = (db, .denied) := by
  simp [step, hf, hp]

theorem denied_delete_changes_nothing (db : DB) (w : Who) (l : String) (d : Doc)
    (hf : find db l = some d) (hp : canDelete w d = false) :
    step db (.delete w l) = (db, .denied) := by
  simp [step, hf, hp]

/-- the answer to a mutation attempt on a document that does not exist -/
theorem absent_update_denied (db : DB) (w : Who) (l : String) (nm : Option String) (hf : find db l = none) :
    step db (.update w l nm) = (db, .denied) := by
  simp [step, hf]

theorem absent_delete_denied (db : DB) (w : Who) (l : String) (hf : find db l = none) :
    step db (.delete w l) = (db, .denied) := by
  simp [step, hf]

/-- a requester that cannot read a document can neither update nor delete it (the policy's expressions) -/
theorem unreadable_not_writable (w : Who) (d : Doc) (h : canRead w d = false) :
    canUpdate w d = false ∧ canDelete w d = false := by
  unfold canRead at h
  unfold canUpdate canDelete
  simp only [Bool.or_eq_false_iff] at h ⊢
  obtain ⟨⟨⟨⟨h1, h2⟩, _⟩, h4⟩, h5⟩ := h
  exact ⟨⟨⟨h1, h2⟩, h4⟩, ⟨⟨h1, h2⟩, h5⟩⟩

/-- Hence an attempt on an unreadable document is answered exactly like an attempt on a missing one, and changes
    nothing. -/
theorem unreadable_mutation_like_absent (db : DB) (w : Who) (l : String) (nm : Option String) (d : Doc)
    (hf : find db l = some d) (h : canRead w d = false) :
    step db (.update w l nm) = (db, .denied) ∧ step db (.delete w l) = (db, .denied) :=
  ⟨denied_update_changes_nothing db w l nm d hf (unreadable_not_writable w d h).1,
   denied_delete_changes_nothing db w l d hf (unreadable_not_writable w d h).2⟩

/-- **a create that addresses an existing document changes nothing**, whoever asks and whether or not they may read
    it (a document's identifier is a function of its initial content, so any requester who knows that content can
    address it) -/
theorem create_over_existing_changes_nothing (db : DB) (d e : Doc) (hf : find db d.label = some e) :
    step db (.create d) = (db, .error) := by
  simp [step, hf]

/-- the create as it was before the repair: a requester without identity resets a document it may not read -/
theorem pinned_create_resets_a_private_document :
    let private_ : Doc := { label := "a", col := 0, registered := true, name := "updated" }
    let again : Doc := { label := "a", col := 0, registered := false, name := "initial" }
    canRead .anon private_ = false ∧
    (createPinned .anon [private_] again).2 = .ok ∧
    ((createPinned .anon [private_] again).1.map (·.name)) = ["initial"] ∧
    step [private_] (.create again) = ([private_], .error) := by
  decide

/-! ### grants and revocations take effect in the next state -/

theorem holds_after_grant (d : Doc) (n : Nat) (r : Rel) :
    holds { d with grants := (.actor n, r) :: d.grants.filter (· != (.actor n, r)) } (.actor n) r = true := by
  simp [holds]

/-- after a grant of any relation the document is readable by the grantee -/
theorem grant_visible_next (d : Doc) (n : Nat) (r : Rel) :
    canRead (.actor n) { d with grants := (.actor n, r) :: d.grants.filter (· != (.actor n, r)) } = true := by
  have h := holds_after_grant d n r
  unfold canRead
  cases r <;> simp [h]

theorem not_holds_after_revoke (d : Doc) (n : Nat) (r : Rel) (hall : d.grants.contains (.all, r) = false) :
    holds { d with grants := d.grants.filter (· != (.actor n, r)) } (.actor n) r = false := by
  simp only [holds, Bool.or_eq_false_iff]
  constructor
  · simp [List.contains_eq_mem]
  · rw [List.contains_eq_mem] at hall ⊢
    simp only [List.mem_filter, decide_eq_false_iff_not, not_and] at hall ⊢
    intro hm
    exact absurd hm hall

/-- once the requester holds no relation on a registered document (the last one was just revoked) and nobody
    granted one to everybody, it is unreadable in the very next state -/
theorem revoke_invisible_next (d : Doc) (n : Nat) (hreg : d.registered = true)
    (hnone : ∀ r, holds d (.actor n) r = false) : canRead (.actor n) d = false := by
  unfold canRead
  simp [hreg, hnone]

/-! ### non-vacuity -/

def sampleDB : DB :=
  [ { label := "a0", col := 0, registered := false, name := "ann" },
    { label := "a1", col := 0, registered := true, name := "ann" },
    { label := "b0", col := 1, registered := false, parent := some "a1" },
    { label := "b1", col := 1, registered := true, parent := some "a0", grants := [(.actor 0, .reader)] } ]

example : scan (.actor 1) sampleDB 0 = ["a0"] ∧ indexLookup (.actor 1) sampleDB "ann" = ["a0"] ∧
    joinParent (.actor 1) sampleDB = [] ∧ joinChildren (.actor 0) sampleDB = [("a0", "b1")] ∧
    commits .anon sampleDB = ["a0", "b0"] ∧ scan .owner sampleDB 1 = ["b0", "b1"] := by decide

example : (step sampleDB (.update (.actor 1) "a1" (some "x"))).2 = .denied ∧
    (step sampleDB (.update .anon "a0" (some "x"))).2 = .ok ∧
    (step sampleDB (.grant "a0" (.actor 0) .reader)).2 = .error := by decide

end Defra.Acp
