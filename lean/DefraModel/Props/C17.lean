import DefraModel.Encoding.FieldValue
namespace Defra.Props.C17
open Defra Defra.Enc

theorem placeholder : (1 : Nat) = 1 := rfl

end Defra.Props.C17
