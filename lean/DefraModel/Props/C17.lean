/-
C17 — Index key encoding preserves value order and loses nothing.
Property theorems only (lemmas live in DefraModel/Proofs).  Everything is stated
for ALL values of the kind within the Go type's range; no size bound.
-/
import DefraModel.Encoding.FieldValue
import DefraModel.Proofs.ScalarOrder
namespace Defra.Props.C17
open Defra Defra.Enc Defra.Bytes

/-- the Go type's range / what the writer can produce -/
def JScalar.Wf : JScalar → Prop
  | .str s => IsBytes s
  | .num u => u < 2 ^ 64 ∧ f64.isNaN u = false
  | .bool _ => True
  | .null => True

def Val.Wf : Val → Prop
  | .null => True
  | .bool _ => True
  | .int i => -(2 ^ 63) ≤ i ∧ i < 2 ^ 63
  | .f32 u => u < 2 ^ 32 ∧ f32.isNaN u = false
  | .f64 u => u < 2 ^ 64 ∧ f64.isNaN u = false
  | .str s => IsBytes s
  | .time s n => (-(2 ^ 63) ≤ s ∧ s < 2 ^ 63) ∧ 0 ≤ n ∧ n < 1000000000
  | .json _ v => JScalar.Wf v

/-- the order of the values themselves: null first, then the natural order of the kind
    (IEEE order for floats with `-0 = +0`; `bytes.Compare` for strings; (seconds, nanoseconds)
    for times; JSON scalars of one kind under one path) -/
def Val.lt : Val → Val → Prop
  | .null, .null => False
  | .null, _ => True
  | .bool a, .bool b => a = false ∧ b = true
  | .int a, .int b => a < b
  | .f32 a, .f32 b => f32.key a < f32.key b
  | .f64 a, .f64 b => f64.key a < f64.key b
  | .str a, .str b => Bytes.lt a b = true
  | .time s n, .time s' n' => s < s' ∨ (s = s' ∧ n < n')
  | .json p (.str a), .json q (.str b) => p = q ∧ Bytes.lt a b = true
  | .json p (.num a), .json q (.num b) => p = q ∧ f64.key a < f64.key b
  | .json p (.bool a), .json q (.bool b) => p = q ∧ a = false ∧ b = true
  | _, _ => False

/-- **ascending keys are an order embedding into a prefix-free code**: a smaller value's key
    is decided smaller at a differing byte, whatever follows either key -/
theorem asc_mono (a b : Val) (ha : Val.Wf a) (hb : Val.Wf b) (h : Val.lt a b) :
    slt (fieldValue false a) (fieldValue false b) = true := by
  cases a <;> cases b <;> simp only [Val.lt] at h <;> simp only [fieldValue, Bool.false_eq_true, if_false]
  -- null below every non-null
  case null.bool b => cases b <;> simp [nullAsc, boolAsc]
  case null.int i =>
    unfold varintAsc uvarintAsc nullAsc
    have := nwidth_pos i; have := uwidth_pos i.toNat
    repeat' split
    all_goals (enc_consts; simp; omega)
  case null.f32 u => unfold floatAsc nullAsc; repeat' split
                     all_goals simp [f32]
  case null.f64 u => unfold floatAsc nullAsc; repeat' split
                     all_goals simp [f64]
  case null.str s => simp [nullAsc, bytesAsc]
  case null.time s n => simp [nullAsc, timeAsc]
  case null.json p v => simp [nullAsc, jsonEnc, jsonPath]
  case bool.bool x y => obtain ⟨rfl, rfl⟩ := h; simp [boolAsc]
  case int.int x y => exact varintAsc_mono x y ha.1 hb.2 h
  case f32.f32 x y => exact floatAsc_mono f32 f32_good x y ha.1 hb.1 ha.2 hb.2 h
  case f64.f64 x y => exact floatAsc_mono f64 f64_good x y ha.1 hb.1 ha.2 hb.2 h
  case str.str x y => exact bytesAsc_mono x y h
  case time.time s n s' n' =>
    exact timeAsc_mono s n s' n' ha.1 hb.1 (by have := ha.2; omega) (by have := hb.2; omega) h
  case json.json p x q y =>
    cases x <;> cases y <;> simp only [Val.lt] at h
    case str.str x y => obtain ⟨rfl, h⟩ := h; simp only [jsonEnc, jsonScalar, Bool.false_eq_true, if_false, slt_prefix]; exact bytesAsc_mono x y h
    case num.num x y => obtain ⟨rfl, h⟩ := h; simp only [jsonEnc, jsonScalar, Bool.false_eq_true, if_false, slt_prefix]; exact floatAsc_mono f64 f64_good x y ha.1 hb.1 ha.2 hb.2 h
    case bool.bool x y => obtain ⟨rfl, rfl, rfl⟩ := h; simp [jsonEnc, jsonScalar, boolAsc]

/-- **descending keys reverse the order** (null last) -/
theorem desc_anti (a b : Val) (ha : Val.Wf a) (hb : Val.Wf b) (h : Val.lt a b) :
    slt (fieldValue true b) (fieldValue true a) = true := by
  cases a <;> cases b <;> simp only [Val.lt] at h <;> simp only [fieldValue, if_true]
  case null.bool b => cases b <;> simp [nullDesc, boolDesc, boolAsc]
  case null.int i =>
    unfold varintDesc varintAsc uvarintAsc nullDesc
    have := nwidth_pos (inot i); have := uwidth_pos (inot i).toNat
    repeat' split
    all_goals (enc_consts; simp; omega)
  case null.f32 u => unfold floatDesc floatAsc nullDesc; repeat' split
                     all_goals simp [f32]
  case null.f64 u => unfold floatDesc floatAsc nullDesc; repeat' split
                     all_goals simp [f64]
  case null.str s => simp [nullDesc, bytesDesc]
  case null.time s n => simp [nullDesc, timeDesc]
  case null.json p v => simp [nullDesc, jsonEnc, jsonPath]
  case bool.bool x y => obtain ⟨rfl, rfl⟩ := h; simp [boolDesc, boolAsc]
  case int.int x y => exact varintDesc_anti x y ha.1 hb.2 h
  case f32.f32 x y => exact floatDesc_anti f32 f32_good x y ha.1 hb.1 ha.2 hb.2 h
  case f64.f64 x y => exact floatDesc_anti f64 f64_good x y ha.1 hb.1 ha.2 hb.2 h
  case str.str x y => exact bytesDesc_anti x y ha hb h
  case time.time s n s' n' =>
    exact timeDesc_anti s n s' n' ha.1 hb.1 (by have := ha.2; omega) (by have := hb.2; omega) h
  case json.json p x q y =>
    cases x <;> cases y <;> simp only [Val.lt] at h
    case str.str x y => obtain ⟨rfl, h⟩ := h; simp only [jsonEnc, jsonScalar, if_true, slt_prefix]; exact bytesDesc_anti x y ha hb h
    case num.num x y => obtain ⟨rfl, h⟩ := h; simp only [jsonEnc, jsonScalar, if_true, slt_prefix]; exact floatDesc_anti f64 f64_good x y ha.1 hb.1 ha.2 hb.2 h
    case bool.bool x y => obtain ⟨rfl, rfl, rfl⟩ := h; simp [jsonEnc, jsonScalar, boolDesc, boolAsc]

/-- byte order of ascending keys **is** value order (both directions), per direction flag -/
theorem lt_iff_enc_lt (a b : Val) (ha : Val.Wf a) (hb : Val.Wf b)
    (tri : Val.lt a b ∨ fieldValue false a = fieldValue false b ∨ Val.lt b a) :
    Val.lt a b ↔ Bytes.lt (fieldValue false a) (fieldValue false b) = true := by
  constructor
  · intro h; exact slt_imp_lt _ _ (asc_mono a b ha hb h)
  · intro h
    rcases tri with t | t | t
    · exact t
    · rw [t, lt_irrefl] at h; cases h
    · have := lt_asymm _ _ (slt_imp_lt _ _ (asc_mono b a hb ha t)); rw [h] at this; cases this

theorem desc_reverses (a b : Val) (ha : Val.Wf a) (hb : Val.Wf b)
    (tri : Val.lt a b ∨ fieldValue true a = fieldValue true b ∨ Val.lt b a) :
    Val.lt a b ↔ Bytes.lt (fieldValue true b) (fieldValue true a) = true := by
  constructor
  · intro h; exact slt_imp_lt _ _ (desc_anti a b ha hb h)
  · intro h
    rcases tri with t | t | t
    · exact t
    · rw [t, lt_irrefl] at h; cases h
    · have := lt_asymm _ _ (slt_imp_lt _ _ (desc_anti b a hb ha t)); rw [h] at this; cases this

/-- trichotomy holds within each scalar kind, so the `tri` hypothesis above is always available
    for two integers / two floats / two strings / two times -/
theorem tri_int (a b : Int) : Val.lt (.int a) (.int b) ∨ fieldValue false (.int a) = fieldValue false (.int b) ∨ Val.lt (.int b) (.int a) := by
  simp only [Val.lt]
  rcases Int.lt_trichotomy a b with h | h | h
  · exact Or.inl h
  · exact Or.inr (Or.inl (by rw [h]))
  · exact Or.inr (Or.inr h)

theorem tri_f64 (a b : Nat) (ha : Val.Wf (.f64 a)) (hb : Val.Wf (.f64 b)) :
    Val.lt (.f64 a) (.f64 b) ∨ fieldValue false (.f64 a) = fieldValue false (.f64 b) ∨ Val.lt (.f64 b) (.f64 a) := by
  simp only [Val.lt]
  rcases Int.lt_trichotomy (f64.key a) (f64.key b) with h | h | h
  · exact Or.inl h
  · exact Or.inr (Or.inl (by simp only [fieldValue, Bool.false_eq_true, if_false]; exact floatAsc_eq_of_key f64 a b ha.1 hb.1 ha.2 hb.2 h))
  · exact Or.inr (Or.inr h)

theorem tri_f32 (a b : Nat) (ha : Val.Wf (.f32 a)) (hb : Val.Wf (.f32 b)) :
    Val.lt (.f32 a) (.f32 b) ∨ fieldValue false (.f32 a) = fieldValue false (.f32 b) ∨ Val.lt (.f32 b) (.f32 a) := by
  simp only [Val.lt]
  rcases Int.lt_trichotomy (f32.key a) (f32.key b) with h | h | h
  · exact Or.inl h
  · exact Or.inr (Or.inl (by simp only [fieldValue, Bool.false_eq_true, if_false]; exact floatAsc_eq_of_key f32 a b ha.1 hb.1 ha.2 hb.2 h))
  · exact Or.inr (Or.inr h)

theorem tri_str (a b : Bytes) :
    Val.lt (.str a) (.str b) ∨ fieldValue false (.str a) = fieldValue false (.str b) ∨ Val.lt (.str b) (.str a) := by
  simp only [Val.lt]
  by_cases h : a = b
  · exact Or.inr (Or.inl (by rw [h]))
  · rcases lt_total a b h with h | h
    · exact Or.inl h
    · exact Or.inr (Or.inr h)

theorem tri_time (s n s' n' : Int) :
    Val.lt (.time s n) (.time s' n') ∨ fieldValue false (.time s n) = fieldValue false (.time s' n') ∨ Val.lt (.time s' n') (.time s n) := by
  simp only [Val.lt]
  by_cases h : s = s' ∧ n = n'
  · exact Or.inr (Or.inl (by rw [h.1, h.2]))
  · omega

/-- **null first** (ascending) / last (descending), against every non-null value of every kind -/
theorem null_first (v : Val) (hv : Val.Wf v) (hn : v ≠ .null) :
    slt (fieldValue false .null) (fieldValue false v) = true ∧
    slt (fieldValue true v) (fieldValue true .null) = true := by
  have h : Val.lt .null v := by cases v <;> simp_all [Val.lt]
  exact ⟨asc_mono _ _ trivial hv h, desc_anti _ _ trivial hv h⟩

/-- **prefix-free**: the key of a value is never a prefix of the key of a value it is ordered with
    (so a composite key cannot be confused by where one component ends) -/
theorem prefix_free (a b : Val) (ha : Val.Wf a) (hb : Val.Wf b) (d : Bool) (h : Val.lt a b) :
    isPrefix (fieldValue d a) (fieldValue d b) = false ∧ isPrefix (fieldValue d b) (fieldValue d a) = false := by
  cases d
  · exact ⟨slt_not_prefix_left _ _ (asc_mono a b ha hb h), slt_not_prefix_right _ _ (asc_mono a b ha hb h)⟩
  · exact ⟨slt_not_prefix_right _ _ (desc_anti a b ha hb h), slt_not_prefix_left _ _ (desc_anti a b ha hb h)⟩

/-- the order a component with direction flag `d` is meant to impose -/
def compLt (d : Bool) (a b : Val) : Prop := if d then Val.lt b a else Val.lt a b

theorem flatMap_key_slt (pre : List (Val × Bool)) (a b : Val) (d : Bool) (ra rb : List (Val × Bool))
    (h : slt (fieldValue d a) (fieldValue d b) = true) :
    slt ((pre ++ (a, d) :: ra).flatMap (fun (v, d) => 0x2f :: fieldValue d v))
        ((pre ++ (b, d) :: rb).flatMap (fun (v, d) => 0x2f :: fieldValue d v)) = true := by
  simp only [List.flatMap_append, List.flatMap_cons, slt_prefix, List.cons_append, slt_cons,
    beq_self_eq_true, Bool.true_and, Bool.or_eq_true]
  exact Or.inr (slt_append _ _ _ _ h)

/-- **composite keys compare component-wise**: two index keys of one index that agree on the first
    components and whose next components are ordered (each in its own direction) are ordered the
    same way as byte strings, whatever the remaining components and the trailing docID are -/
theorem composite_lex (col idx : Nat) (hc : col ≠ 0) (hi : idx ≠ 0)
    (pre : List (Val × Bool)) (a b : Val) (d : Bool) (ra rb : List (Val × Bool))
    (ha : Val.Wf a) (hb : Val.Wf b) (h : compLt d a b) :
    Bytes.lt (indexKey col idx (pre ++ (a, d) :: ra)) (indexKey col idx (pre ++ (b, d) :: rb)) = true := by
  apply slt_imp_lt
  have hs : slt (fieldValue d a) (fieldValue d b) = true := by
    cases d
    · exact asc_mono a b ha hb h
    · exact desc_anti b a hb ha h
  have key : ∀ fs, indexKey col idx fs =
      ((0x2f :: uvarintAsc col) ++ (0x2f :: uvarintAsc idx)) ++ fs.flatMap (fun (v, d) => 0x2f :: fieldValue d v) := by
    intro fs; unfold indexKey; simp [hc, hi]
  rw [key, key, slt_prefix]
  exact flatMap_key_slt pre a b d ra rb hs

/-- **nothing is lost**: decoding an entry returns the written value (floats: the same number, with
    `-0` read back as `+0` ascending — both zeros share one key by design) and the exact remainder -/
theorem decode_encode_int (i : Int) (h : Val.Wf (.int i)) (d : Bool) (r : Bytes) :
    decFieldValue d (fieldValue d (.int i) ++ r) = some (.int i, r) := by
  have hb := varintAsc_isBytes (if d then inot i else i)
  cases d
  · simp only [fieldValue, Bool.false_eq_true, if_false]
    have hdec := dec_varintAsc i h.1 h.2 r
    have : ∃ m rest, varintAsc i ++ r = m :: rest ∧ m ≥ IntMin ∧ m ≤ IntMax := by
      unfold varintAsc uvarintAsc
      have := nwidth_pos i; have := uwidth_pos i.toNat
      repeat' split
      all_goals exact ⟨_, _, rfl, by simp only [IntMin, IntMax, intZero, intSmall] at *; omega⟩
    obtain ⟨m, rest, e, h1, h2⟩ := this
    rw [e] at hdec ⊢
    simp only [decFieldValue]
    have n1 : ¬ (m = encodedNull ∨ m = encodedNullDesc) := by enc_consts; omega
    have n2 : ¬ (m = bytesMarker ∨ m = bytesDescMarker) := by enc_consts; omega
    simp [n1, n2, h1, h2, hdec]
  · simp only [fieldValue, if_true]
    have hdec := dec_varintDesc i h.1 h.2 r
    have : ∃ m rest, varintDesc i ++ r = m :: rest ∧ m ≥ IntMin ∧ m ≤ IntMax := by
      unfold varintDesc varintAsc uvarintAsc
      have := nwidth_pos (inot i); have := uwidth_pos (inot i).toNat
      repeat' split
      all_goals exact ⟨_, _, rfl, by simp only [IntMin, IntMax, intZero, intSmall] at *; omega⟩
    obtain ⟨m, rest, e, h1, h2⟩ := this
    rw [e] at hdec ⊢
    simp only [decFieldValue]
    have n1 : ¬ (m = encodedNull ∨ m = encodedNullDesc) := by enc_consts; omega
    have n2 : ¬ (m = bytesMarker ∨ m = bytesDescMarker) := by enc_consts; omega
    simp [n1, n2, h1, h2, hdec]

theorem decode_encode_str (s : Bytes) (h : Val.Wf (.str s)) (d : Bool) (r : Bytes) :
    decFieldValue d (fieldValue d (.str s) ++ r) = some (.str s, r) := by
  cases d
  · have h1 := dec_bytesAsc s r
    simp only [bytesAsc, bytesMarker, List.cons_append, List.append_assoc, List.nil_append] at h1
    simp [fieldValue, bytesAsc, decFieldValue, h1]
  · have h1 := dec_bytesDesc s r h
    simp only [bytesDesc, bytesDescMarker, List.cons_append, List.append_assoc, List.nil_append] at h1
    simp [fieldValue, bytesDesc, decFieldValue, h1]

theorem decode_encode_time (s n : Int) (h : Val.Wf (.time s n)) (d : Bool) (r : Bytes) :
    decFieldValue d (fieldValue d (.time s n) ++ r) = some (.time s n, r) := by
  cases d
  · have h1 := dec_timeAsc s n h.1 h.2.1 h.2.2 r
    simp only [timeAsc, timeMarker, List.cons_append, List.append_assoc, List.nil_append] at h1
    simp [fieldValue, timeAsc, decFieldValue, h1]
  · have h1 := dec_timeDesc s n h.1 h.2.1 h.2.2 r
    simp only [timeDesc, timeMarker, List.cons_append, List.append_assoc, List.nil_append] at h1
    simp [fieldValue, timeDesc, decFieldValue, h1]

theorem decode_encode_bool (b : Bool) (d : Bool) (r : Bytes) :
    decFieldValue d (fieldValue d (.bool b) ++ r) = some (.bool b, r) := by
  cases d <;> cases b <;> simp [fieldValue, boolAsc, boolDesc, decFieldValue]

theorem decode_encode_null (d : Bool) (r : Bytes) :
    decFieldValue d (fieldValue d .null ++ r) = some (.null, r) := by
  cases d <;> simp [fieldValue, nullAsc, nullDesc, decFieldValue]

/-- the upper bound the index iterators use for "everything with this prefix":
    every key extending `p` sorts below `prefixEnd p` (unless `p` is all `ff`, when Go returns `p`) -/
theorem prefixEnd_upper (p s : Bytes) (r : Bytes) (h : prefixEndRev p.reverse = some r) :
    slt (p ++ s) (prefixEnd p) = true := by
  unfold prefixEnd; rw [h]
  -- generalise over the reversed prefix
  have key : ∀ (q : Bytes) (r : Bytes) (t : Bytes), prefixEndRev q = some r →
      slt (q.reverse ++ t) r.reverse = true := by
    intro q
    induction q with
    | nil => intro r t h; simp [prefixEndRev] at h
    | cons x xs ih =>
      intro r t h
      simp only [prefixEndRev] at h
      split at h
      · have := ih r ([x] ++ t) h
        simpa using this
      · injection h with h; subst h
        simp only [List.reverse_cons, List.append_assoc, List.cons_append, List.nil_append]
        rw [show xs.reverse ++ [x + 1] = xs.reverse ++ ([x + 1] ++ []) from by simp, slt_prefix]
        simp
  have := key p.reverse r s h
  simpa using this

/-! ### non-vacuity: concrete non-trivial values meet every hypothesis, at the extremes -/

example : Val.Wf (.int (-(2 ^ 63))) ∧ Val.Wf (.int (2 ^ 63 - 1)) ∧ Val.lt (.int (-(2 ^ 63))) (.int (2 ^ 63 - 1)) := by
  simp [Val.Wf, Val.lt]
example : Val.Wf (.f64 0x8000000000000000) ∧ Val.Wf (.f64 0x7FF0000000000000) ∧
    Val.lt (.f64 0xFFF0000000000000) (.f64 0x8000000000000001) := by
  simp [Val.Wf, Val.lt, f64, FFmt.isNaN, FFmt.mag, FFmt.signBit, FFmt.key, FFmt.isNeg]
example : Val.Wf (.str [0, 255, 0]) ∧ Val.lt (.str []) (.str [0]) ∧ Val.lt (.str [0]) (.str [0, 0]) := by
  refine ⟨?_, by simp [Val.lt], by simp [Val.lt]⟩
  intro x hx; simp at hx; omega
example : Val.Wf (.time (-62135596800) 999999999) := by simp [Val.Wf]
example : fieldValue false (.int (-256)) = [134, 255, 0] ∧ fieldValue true (.int 300) = [134, 254, 211] := by
  constructor <;> decide

end Defra.Props.C17
