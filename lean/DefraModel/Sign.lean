/-
Model of commit signatures:
  internal/core/block/signing.go (`signBlock`: composites and first field blocks are signed over the block's bytes
  WITHOUT its signature link), signature.go (`VerifyBlockSignature`, `VerifyBlockSignatureWithKey`),
  net/sync_dag.go (`syncDAG` / `loadBlockLinks`: every block reachable from the pushed head that carries a signature
  must verify, otherwise the push is rejected and no merge event is raised).
The signature scheme is a parameter with the usual correctness law and idealised unforgeability.  Core-only.
-/
namespace Defra.Sign

/-- a signature scheme over secret keys `SK`, public keys `PK`, messages `M`, signatures `S` -/
structure Scheme (SK PK M S : Type) where
  pk : SK → PK
  sign : SK → M → S
  verify : PK → M → S → Bool
  /-- correctness -/
  sound : ∀ sk m, verify (pk sk) m (sign sk m) = true
  /-- idealised unforgeability: whatever verifies under a public key was produced by its secret key for that message -/
  unforgeable : ∀ p m s, verify p m s = true → ∃ sk, p = pk sk ∧ s = sign sk m
  /-- a signature value determines the signed message (under one public key) -/
  binding : ∀ sk sk' m m', pk sk = pk sk' → sign sk m = sign sk' m' → m = m'

/-- the content of a block that is signed: everything except the signature link -/
structure Content where
  delta : Nat
  priority : Nat
  heads : List Nat
  links : List Nat
  encryption : Option Nat
  deriving DecidableEq, Repr

/-- a signature block: the claimed identity (public key) and the signature value -/
structure SigBlock (PK S : Type) where
  identity : PK
  value : S

structure Block (PK S : Type) where
  content : Content
  signature : Option (SigBlock PK S)

/-- `VerifyBlockSignature`: no signature ⇒ nothing to verify (ok = true, verified = false) -/
def verifyBlock {SK PK S : Type} (sc : Scheme SK PK Content S) (b : Block PK S) : Bool :=
  match b.signature with
  | none => true
  | some sg => sc.verify sg.identity b.content sg.value

inductive KeyCheck where
  | ok | missing | mismatch | invalid
  deriving DecidableEq, Repr

/-- `VerifyBlockSignatureWithKey` (the `DB.VerifySignature` API) -/
def verifyWithKey {SK PK S : Type} [DecidableEq PK] (sc : Scheme SK PK Content S) (b : Block PK S) (key : PK) : KeyCheck :=
  match b.signature with
  | none => .missing
  | some sg =>
    if sg.identity ≠ key then .mismatch
    else if sc.verify key b.content sg.value then .ok else .invalid

/-- `syncDAG` over the blocks reachable from the pushed head (the head itself, its parents and links,
    recursively): the push is accepted — and the merge event raised — iff every one of them passes
    `VerifyBlockSignature` -/
def syncAccepts {SK PK S : Type} (sc : Scheme SK PK Content S) (reachable : List (Block PK S)) : Bool :=
  reachable.all (verifyBlock sc)

/-- a toy instance showing the scheme laws are satisfiable: the "signature" is the pair (key, message) -/
def toy : Scheme Nat Nat Content (Nat × Content) where
  pk := id
  sign := fun sk m => (sk, m)
  verify := fun p m s => s == (p, m)
  sound := by intro sk m; simp
  unforgeable := by
    intro p m s h
    refine ⟨p, rfl, ?_⟩
    simpa using h
  binding := by
    intro sk sk' m m' _ h
    exact (Prod.mk.inj h).2

end Defra.Sign
