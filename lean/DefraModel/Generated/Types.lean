/- Record types of the facts that tools/extract regenerates from /repo on every check run. -/
namespace Defra.Generated

/-- an `if <errvar> != nil { .. }` (or `_ = f()`) on the write path that does not return that error -/
structure ErrSite where
  file : String
  func : String
  var : String
  kind : String   -- substituted | loggedOnly | loggedAndSkipped | dropped | forwarded | handled
  deriving DecidableEq, Repr

/-- a function that opens a read-write transaction with `ensureContextTxn(ctx, db, false)` -/
structure ApiSkel where
  file : String
  func : String
  beginErrReturned : Bool
  deferDiscard : Bool
  commits : Nat
  nilReturnsBeforeCommit : Nat
  deriving DecidableEq, Repr

/-- a publication of an update event -/
structure EventSite where
  file : String
  func : String
  inOnSuccess : Bool
  deriving DecidableEq, Repr

structure Wiring where
  file : String
  func : String
  arg : String
  deriving DecidableEq, Repr

end Defra.Generated
