/-
Model of one API call of DefraDB executing inside a key-value transaction, with storage faults:
  internal/db/txn.go (`ensureContextTxn`, `Txn.Commit/Discard` with the `explicit` flag),
  internal/datastore/txn.go (`BasicTxn.Commit`: success callbacks run only after the store commit succeeded;
  `Discard` drops the write buffer),
  the calling convention of every mutating method: `ctx, txn, err := ensureContextTxn(..); defer txn.Discard(ctx);
  ... if err != nil { return err } ...; return txn.Commit(ctx)`.
A program is a tree of storage operations (`Prog`); every operation consumes one tick of a fault oracle
`Nat → Bool`; an error aborts the program (programs of this type cannot swallow an error — that discipline is
what the generated obligations check of the real code).  Core-only.
-/
import DefraModel.Bytes
namespace Defra.Kv

abbrev Key := Bytes
abbrev Val := Bytes
/-- the committed store -/
abbrev Store := Key → Option Val

/-- an update notification (`event.Update`), identified by the commit it announces -/
abbrev Event := Nat

/-- programs over a transaction: storage reads/writes, registration of a success callback that publishes
    an event, an explicit error return, and pure results -/
inductive Prog (α : Type) where
  | pure (a : α)
  | fail
  | get (k : Key) (cont : Option Val → Prog α)
  | has (k : Key) (cont : Bool → Prog α)
  | set (k : Key) (v : Val) (cont : Prog α)
  | del (k : Key) (cont : Prog α)
  | scan (p : Key → Bool) (keys : List Key) (cont : List (Key × Val) → Prog α)
  | onSuccess (e : Event) (cont : Prog α)

/-- state of an open transaction -/
structure Txn where
  /-- the store as of `NewTxn` -/
  snapshot : Store
  /-- buffered writes, oldest first (`none` = delete) -/
  writes : List (Key × Option Val) := []
  /-- events registered with `OnSuccess`, in order -/
  callbacks : List Event := []
  /-- storage operations issued so far -/
  ticks : Nat := 0

/-- overlay buffered writes on a store (later writes win) -/
def applyWrites (s : Store) : List (Key × Option Val) → Store
  | [] => s
  | (k, v) :: rest => applyWrites (fun x => if x = k then v else s x) rest

/-- what a read inside the transaction sees: the snapshot overlaid with its own writes -/
def Txn.view (t : Txn) : Store := applyWrites t.snapshot t.writes

inductive Res (α : Type) where
  | ok (a : α)
  | err
  deriving Repr

/-- run a program inside a transaction; `fails n` says whether the n-th storage operation (1-based) fails -/
def run {α : Type} (fails : Nat → Bool) : Prog α → Txn → Res α × Txn
  | .pure a, t => (.ok a, t)
  | .fail, t => (.err, t)
  | .get k cont, t =>
    let t := { t with ticks := t.ticks + 1 }
    if fails t.ticks then (.err, t) else run fails (cont (t.view k)) t
  | .has k cont, t =>
    let t := { t with ticks := t.ticks + 1 }
    if fails t.ticks then (.err, t) else run fails (cont (t.view k).isSome) t
  | .set k v cont, t =>
    let t := { t with ticks := t.ticks + 1 }
    if fails t.ticks then (.err, t) else run fails cont { t with writes := t.writes ++ [(k, some v)] }
  | .del k cont, t =>
    let t := { t with ticks := t.ticks + 1 }
    if fails t.ticks then (.err, t) else run fails cont { t with writes := t.writes ++ [(k, none)] }
  | .scan p keys cont, t =>
    let t := { t with ticks := t.ticks + 1 }
    if fails t.ticks then (.err, t)
    else run fails (cont ((keys.filter p).filterMap (fun k => (t.view k).map (fun v => (k, v))))) t
  | .onSuccess e cont, t => run fails cont { t with callbacks := t.callbacks ++ [e] }

/-- outcome of one API call: result, the committed store afterwards, the events published -/
structure Outcome (α : Type) where
  res : Res α
  store : Store
  published : List Event

/-- an API call that creates its own transaction: begin, run the body, on error `defer txn.Discard`,
    otherwise `txn.Commit` (one more storage operation), and only on a successful commit run the success
    callbacks -/
def withTxn {α : Type} (fails : Nat → Bool) (body : Prog α) (store : Store) : Outcome α :=
  match run fails body { snapshot := store } with
  | (.err, _) => { res := .err, store := store, published := [] }
  | (.ok a, t) =>
    if fails (t.ticks + 1) then { res := .err, store := store, published := [] }
    else { res := .ok a, store := t.view, published := t.callbacks }

/-- the same call made with an explicit transaction already on the context: the body runs in the caller's
    transaction, the inner `Commit`/`Discard` are no-ops (`explicit = true`) -/
def inExplicitTxn {α : Type} (fails : Nat → Bool) (body : Prog α) (t : Txn) : Res α × Txn := run fails body t

/-- the creator of an explicit transaction commits it -/
def commitTxn (fails : Nat → Bool) (t : Txn) (store : Store) : Outcome Unit :=
  if fails (t.ticks + 1) then { res := .err, store := store, published := [] }
  else { res := .ok (), store := applyWrites store t.writes, published := t.callbacks }

/-- ... or discards it -/
def discardTxn (store : Store) : Outcome Unit := { res := .ok (), store := store, published := [] }

/-- a history of API calls, each in its own transaction, with one fault oracle per call -/
def runCalls {α : Type} : List ((Nat → Bool) × Prog α) → Store → Store × List Event
  | [], s => (s, [])
  | (f, p) :: rest, s =>
    let o := withTxn f p s
    let (s', evs) := runCalls rest o.store
    (s', o.published ++ evs)

end Defra.Kv
