/-
Multi-version store with snapshot transactions and commit-time conflict detection on the READ set
(Badger's transactions, which DefraDB's explicit transactions are: internal/db/txn.go, datastore/txn.go).
`begin` fixes a snapshot timestamp; reads see the snapshot overlaid with the transaction's own writes and are
recorded; `commit` fails with a conflict iff some recorded key has a committed version newer than the snapshot,
otherwise installs all writes at one new timestamp.  Core-only.
-/
namespace Defra.Mvcc

abbrev Key := Nat
abbrev Val := Option Nat      -- none = deleted / absent

structure Version where
  key : Key
  ts : Nat
  val : Val
  deriving Repr, DecidableEq

structure Txn where
  startTs : Nat
  writes : List (Key × Val) := []    -- oldest first
  reads : List Key := []
  live : Bool := true
  deriving Repr

structure DB where
  versions : List Version := []      -- oldest first, timestamps increasing
  clock : Nat := 0
  txns : List (Nat × Txn) := []

/-- newest committed value of `k` at or before `ts` -/
def readAt (vs : List Version) (ts : Nat) (k : Key) : Val :=
  match (vs.filter (fun v => v.key == k && v.ts ≤ ts)).getLast? with
  | some v => v.val
  | none => none

def lookupW (ws : List (Key × Val)) (k : Key) : Option Val :=
  ((ws.filter (·.1 == k)).getLast?).map (·.2)

def DB.txn? (db : DB) (i : Nat) : Option Txn := (db.txns.find? (·.1 == i)).map (·.2)
def DB.setTxn (db : DB) (i : Nat) (t : Txn) : DB :=
  { db with txns := (db.txns.filter (·.1 != i)) ++ [(i, t)] }

/-- what transaction `t` sees for `k` -/
def Txn.see (t : Txn) (vs : List Version) (k : Key) : Val :=
  match lookupW t.writes k with
  | some v => v
  | none => readAt vs t.startTs k

inductive Act where
  | begin (i : Nat)
  | read (i : Nat) (k : Key)
  | write (i : Nat) (k : Key) (v : Val)
  | commit (i : Nat)
  | discard (i : Nat)
  | outsideRead (k : Key)          -- a non-transactional read: sees the latest committed state
  deriving Repr

inductive Out where
  | none
  | val (v : Val)
  | committed
  | conflict
  | notLive
  deriving Repr, DecidableEq

/-- does some key of the read set have a version newer than the snapshot? -/
def hasConflict (vs : List Version) (t : Txn) : Bool :=
  t.reads.any (fun k => vs.any (fun v => v.key == k && v.ts > t.startTs))

def step (db : DB) : Act → DB × Out
  | .begin i => (db.setTxn i { startTs := db.clock }, .none)
  | .read i k =>
    match db.txn? i with
    | some t =>
      if t.live then
        -- a read served from the transaction's own pending write is not tracked (Badger: `pendingWrites`)
        let reads := if (lookupW t.writes k).isSome then t.reads else t.reads ++ [k]
        (db.setTxn i { t with reads := reads }, .val (t.see db.versions k))
      else (db, .notLive)
    | none => (db, .notLive)
  | .write i k v =>
    match db.txn? i with
    | some t => if t.live then (db.setTxn i { t with writes := t.writes ++ [(k, v)] }, .none) else (db, .notLive)
    | none => (db, .notLive)
  | .commit i =>
    match db.txn? i with
    | some t =>
      if !t.live then (db, .notLive)
      else if t.writes.isEmpty then (db.setTxn i { t with live := false }, .committed)   -- nothing to install
      else if hasConflict db.versions t then (db.setTxn i { t with live := false }, .conflict)
      else
        let ts := db.clock + 1
        ({ (db.setTxn i { t with live := false }) with
            versions := db.versions ++ t.writes.map (fun w => ⟨w.1, ts, w.2⟩), clock := ts }, .committed)
    | none => (db, .notLive)
  | .discard i =>
    match db.txn? i with
    | some t => (db.setTxn i { t with live := false }, .none)
    | none => (db, .notLive)
  | .outsideRead k => (db, .val (readAt db.versions db.clock k))

def runActs (db : DB) : List Act → DB × List Out
  | [] => (db, [])
  | a :: rest =>
    let (db', o) := step db a
    let (db'', os) := runActs db' rest
    (db'', o :: os)

end Defra.Mvcc
