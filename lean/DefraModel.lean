-- Root of the `DefraModel` library: every model, proof and property module.
import DefraModel.Bytes
import DefraModel.Encoding.Int
import DefraModel.Encoding.Scalars
import DefraModel.Encoding.FieldValue
import DefraModel.Proofs.BytesLemmas
import DefraModel.Proofs.IntOrder
import DefraModel.Proofs.ScalarOrder
import DefraModel.Props.C17
