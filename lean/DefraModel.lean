-- Root of the `DefraModel` library: every model, proof and property module.
import DefraModel.Bytes
import DefraModel.Encoding.Int
import DefraModel.Encoding.Scalars
import DefraModel.Encoding.FieldValue
import DefraModel.Crdt.Model
import DefraModel.Proofs.BytesLemmas
import DefraModel.Proofs.IntOrder
import DefraModel.Proofs.ScalarOrder
import DefraModel.Proofs.CrdtAlgebra
import DefraModel.Proofs.CrdtHeads
import DefraModel.Proofs.CrdtFolds
import DefraModel.Props.C01
import DefraModel.Props.C02
import DefraModel.Props.C04
import DefraModel.Props.C17
