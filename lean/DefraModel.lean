-- This module serves as the root of the `DefraModel` library.
-- Import modules here that should be built as part of the library.
import DefraModel.Basic
