import DefraModel.Relation
open Defra.Relation

/-! `drv rel`: replays the `rel` harness's histories on the relation model and answers every request kind from the
    documents' own relation fields. -/
namespace Driver.Rel

structure W where
  db : DB := []
  labels : List (String × Nat) := []   -- label → id
  cols : List String := []             -- collection names, index = col number
  rels : List Rel := []
  single : Bool := false

def sortStr (l : List String) : List String := (l.toArray.qsort (· < ·)).toList

def colOf (w : W) (name : String) : Nat := (w.cols.findIdx? (· == name)).getD 99

def idOf (w : W) (label : String) : Option Nat := (w.labels.find? (·.1 == label)).map (·.2)

def labelOf (w : W) (id : Nat) : String := ((w.labels.find? (·.2 == id)).map (·.1)).getD "?"

def extractStr (js key : String) : Option String :=
  match js.splitOn ("\"" ++ key ++ "\": \"") with
  | _ :: rest :: _ => some ((rest.splitOn "\"").headD "")
  | _ => none

/-- the integer following `"key": ` (none for null / absent) -/
def extractInt (js key : String) : Option Int :=
  match js.splitOn ("\"" ++ key ++ "\": ") with
  | _ :: rest :: _ =>
    let tok := ((rest.splitOn ",").headD "").splitOn "}" |>.headD ""
    tok.trimAscii.toString.toInt?
  | _ => none

def topo (name : String) : W :=
  if name == "t1" then { cols := ["Author", "Book"], rels := [⟨0, 1⟩] }
  else if name == "t2" then { cols := ["Address", "User"], rels := [⟨0, 1⟩], single := true }
  else if name == "t3" then { cols := ["Emp"], rels := [⟨0, 0⟩] }
  else { cols := ["Publisher", "Author", "Book"], rels := [⟨1, 2⟩, ⟨0, 1⟩] }

def showX (x : Option Int) : String := match x with | some v => toString v | none => "null"

def byLabel (w : W) (l : List Doc) : List String := sortStr (l.map (fun d => labelOf w d.id))

def kidsStr (w : W) (l : List Doc) : String := "[" ++ ",".intercalate (byLabel w l) ++ "]"

/-- order key for ASC: documents without a value first -/
def keyLe (a b : Option Int) : Bool :=
  match a, b with
  | none, _ => true
  | some _, none => false
  | some x, some y => x ≤ y

def insertBy {α} (le : α → α → Bool) (x : α) : List α → List α
  | [] => [x]
  | y :: t => if le x y then x :: y :: t else y :: insertBy le x t

def sortBy {α} (le : α → α → Bool) (l : List α) : List α := l.foldr (insertBy le) []

def oneToOne (w : W) (col : Nat) : Bool := w.single && col == 1

def answer (w : W) (kind : String) (r : Rel) (arg : String) : String :=
  let db := w.db
  let parents := live db r.parent
  let kidsAll := live db r.child
  let v : Int := arg.toInt?.getD 0
  let gt (d : Doc) : Bool := match d.x with | some x => x > v | none => false
  let join (l : List String) := " ".intercalate (sortStr l)
  if kind == "kids" then join (parents.map (fun p => labelOf w p.id ++ ":" ++ kidsStr w (children db r p)))
  else if kind == "parent" then
    join (kidsAll.map (fun c => labelOf w c.id ++ ":" ++ (match parentOf db r c with | some p => labelOf w p.id | none => "-")))
  else if kind == "byfk" then
    match idOf w arg with
    | some k => join ((kidsAll.filter (fun c => c.fk == some k)).map (fun c => labelOf w c.id))
    | none => ""
  else if kind == "pfilter" then join ((parentsWith db r gt).map (fun p => labelOf w p.id))
  else if kind == "pfilterkids" then join ((parentsWith db r gt).map (fun p => labelOf w p.id ++ ":" ++ kidsStr w (children db r p)))
  else if kind == "pfiltername" then
    join ((parentsWith db r (fun c => c.name == arg)).map (fun p => labelOf w p.id ++ ":" ++ kidsStr w (children db r p)))
  else if kind == "cfilter" then join ((childrenWith db r gt).map (fun c => labelOf w c.id))
  else if kind == "cfiltername" then
    join ((childrenWith db r (fun p => p.name == arg)).map (fun c =>
      labelOf w c.id ++ ":" ++ (match parentOf db r c with | some p => labelOf w p.id | none => "-")))
  else if kind == "agg" then
    join (parents.map (fun p => s!"{labelOf w p.id}:count={(children db r p).length},sum={sumX (children db r p)}"))
  else if kind == "aggf" then
    join (parents.map (fun p => s!"{labelOf w p.id}:count={((children db r p).filter gt).length}"))
  else if kind == "kidsor" || kind == "pfilteror" || kind == "cfilteror" then
    -- arg = "a,b": x = a or x = b
    let ab := arg.splitOn ","
    let a : Int := (ab.headD "0").toInt?.getD 0
    let b : Int := ((ab.drop 1).headD "0").toInt?.getD 0
    let alt (d : Doc) : Bool := match d.x with | some x => x == a || x == b | none => false
    if kind == "kidsor" then
      join (parents.map (fun p => labelOf w p.id ++ ":" ++ kidsStr w ((children db r p).filter alt)))
    else if kind == "pfilteror" then join ((parentsWith db r alt).map (fun p => labelOf w p.id))
    else join ((childrenWith db r alt).map (fun c => labelOf w c.id))
  else if kind == "kidsor2" then
    -- arg = "a,name": x = a and name = name
    let ab := arg.splitOn ","
    let a : Int := (ab.headD "0").toInt?.getD 0
    let nm := (ab.drop 1).headD ""
    let both (d : Doc) : Bool := (match d.x with | some x => x == a | none => false) && d.name == nm
    join (parents.map (fun p => labelOf w p.id ++ ":" ++ kidsStr w ((children db r p).filter both)))
  else if kind == "kidsaggf" || kind == "agg2f" then
    -- arg = "a,b": related documents with x > a, and those with a < x < b
    let ab := arg.splitOn ","
    let a : Int := (ab.headD "0").toInt?.getD 0
    let b : Int := ((ab.drop 1).headD "0").toInt?.getD 0
    let wide (d : Doc) : Bool := match d.x with | some x => x > a | none => false
    let narrow (d : Doc) : Bool := match d.x with | some x => x > a && x < b | none => false
    if kind == "kidsaggf" then
      join (parents.map (fun p =>
        s!"{labelOf w p.id}:{kidsStr w ((children db r p).filter wide)}:count={((children db r p).filter narrow).length}"))
    else
      join (parents.map (fun p =>
        s!"{labelOf w p.id}:c1={((children db r p).filter wide).length},c2={((children db r p).filter narrow).length}"))
  else if kind == "cfilterne" then
    -- the parent is not called `arg`; a child without a parent has no parent called so either
    join ((kidsAll.filter (fun c => match parentOf db r c with | some p => p.name != arg | none => true)).map (fun c => labelOf w c.id))
  else if kind == "cfilterown" then
    -- arg = "a,name": the parent is called name and the child's own x exceeds a
    let ab := arg.splitOn ","
    let a : Int := (ab.headD "0").toInt?.getD 0
    let nm := (ab.drop 1).headD ""
    join (((childrenWith db r (fun p => p.name == nm)).filter (fun c => match c.x with | some x => x > a | none => false)).map
      (fun c => labelOf w c.id))
  else if kind == "pcountf" then
    join ((parentsWith db r gt).map (fun p => s!"{labelOf w p.id}:count={(children db r p).length}"))
  else if kind == "pdocidf" then
    -- arg = "label,a": that parent, if one of its related documents has x > a
    let ab := arg.splitOn ","
    let a : Int := ((ab.drop 1).headD "0").toInt?.getD 0
    match idOf w (ab.headD "") with
    | some k => join (((parentsWith db r (fun d => match d.x with | some x => x > a | none => false)).filter (·.id == k)).map
        (fun p => labelOf w p.id))
    | none => ""
  else if kind == "cdocidf" then
    -- arg = "label,name": that child, if its parent is called name
    let ab := arg.splitOn ","
    let nm := (ab.drop 1).headD ""
    match idOf w (ab.headD "") with
    | some k => join (((childrenWith db r (fun p => p.name == nm)).filter (·.id == k)).map (fun c => labelOf w c.id))
    | none => ""
  else if kind == "kidsdocid" then
    match idOf w arg with
    | some k => join (parents.map (fun p => labelOf w p.id ++ ":" ++ kidsStr w ((children db r p).filter (·.id == k))))
    | none => ""
  else if kind == "topcount" then toString (childrenWith db r gt).length
  else if kind == "topsum" then toString (sumX (childrenWith db r (fun p => p.name == arg)))
  else if kind == "corder" then
    -- children ordered by the parent's x; no parent and a parent without x are both "no value"
    let keys := kidsAll.map (fun c => match parentOf db r c with
      | some p => (match p.x with | some x => (2, x, "") | none => (1, 0, "null"))
      | none => ((0 : Nat), (0 : Int), "none"))
    let sorted := sortBy (fun a b => a.1 < b.1 || (a.1 == b.1 && a.2.1 ≤ b.2.1)) keys
    " ".intercalate (sorted.map (fun k => if k.1 == 2 then toString k.2.1 else k.2.2))
  else if kind == "kidsorder" then
    let n := arg.toNat?.getD 1
    join (parents.map (fun p =>
      let xs := (sortBy (fun a b => keyLe b a) ((children db r p).map (·.x))).take n
      labelOf w p.id ++ ":[" ++ ",".intercalate (xs.map showX) ++ "]"))
  else if kind == "psorted" then
    let items := parents.map (fun p => (p.x, labelOf w p.id ++ ":" ++ kidsStr w (children db r p)))
    let sorted := sortBy (fun a b => if a.1 == b.1 then a.2 ≤ b.2 else keyLe a.1 b.1) items
    " ".intercalate (sorted.map (fun i => showX i.1 ++ "/" ++ i.2))
  else "bad-kind"

def hop2 (w : W) : String :=
  match w.rels with
  | [r0, r1] =>
    let pubs := live w.db r1.parent
    " ".intercalate (sortStr (pubs.map (fun p =>
      let aus := children w.db r1 p
      labelOf w p.id ++ ":{" ++ ",".intercalate (sortStr (aus.map (fun a => labelOf w a.id ++ kidsStr w (children w.db r0 a)))) ++ "}")))
  | _ => "bad-kind"

def hop2up (w : W) : String :=
  match w.rels with
  | [r0, r1] =>
    " ".intercalate (sortStr ((live w.db r0.child).map (fun b =>
      labelOf w b.id ++ ":" ++ (match parentOf w.db r0 b with
        | some a => labelOf w a.id ++ ":" ++ (match parentOf w.db r1 a with | some p => labelOf w p.id | none => "-")
        | none => "-"))))
  | _ => "bad-kind"

def hop2filter (w : W) (nm : String) : String :=
  match w.rels with
  | [r0, r1] =>
    " ".intercalate (sortStr (((live w.db r0.child).filter (fun b => match parentOf w.db r0 b with
      | some a => (match parentOf w.db r1 a with | some p => p.name == nm | none => false)
      | none => false)).map (fun b => labelOf w b.id)))
  | _ => "bad-kind"

def step (w : W) (toks : List String) : W × String :=
  match toks with
  | ["case", _, tp, _] => (topo ((tp.drop 5).toString), "ok")
  | "doc" :: label :: col :: rest =>
    let js := " ".intercalate rest
    let id := w.labels.length
    let fkLabel := (js.splitOn "_id\": \"@").drop 1 |>.head? |>.map (fun s => (s.splitOn "\"").headD "")
    let d : Doc := { id := id, col := colOf w col, name := (extractStr js "name").getD "", x := extractInt js "x",
                     fk := fkLabel.bind (idOf w) }
    let (db, ok) := Defra.Relation.step (oneToOne w) w.db (.create d)
    if ok then ({ w with db := db, labels := w.labels ++ [(label, id)] }, "ok") else (w, "error:already-linked")
  | ["set", label, field, val] =>
    match idOf w label with
    | none => (w, "error:no-such-doc")
    | some id =>
      let op : Op :=
        if field == "x" then .setX id val.toInt?
        else if val == "null" then .setFk id none
        else .setFk id (idOf w ((val.drop 2).dropEnd 1).toString)
      let (db, ok) := Defra.Relation.step (oneToOne w) w.db op
      if ok then ({ w with db := db }, "ok")
      else match w.db.find? (fun d => d.id == id && !d.deleted) with
        | none => (w, "error:not-updated")
        | some _ => (w, "error:already-linked")
  | ["del", label] =>
    match idOf w label with
    | none => (w, "error:no-such-doc")
    | some id =>
      let (db, ok) := Defra.Relation.step (oneToOne w) w.db (.delete id)
      if ok then ({ w with db := db }, "ok") else (w, "error:not-deleted")
  | ["uniq"] => (w, if w.single then "double=0" else "n/a")
  | ["q", "hop2", _] => (w, hop2 w)
  | ["q", "hop2up", _] => (w, hop2up w)
  | ["q", "hop2filter", _, nm] => (w, hop2filter w nm)
  | "q" :: kind :: ri :: rest =>
    match w.rels[ri.toNat?.getD 0]? with
    | some r => (w, answer w kind r (rest.headD ""))
    | none => (w, "bad-rel")
  | _ => (w, "bad-op")

end Driver.Rel
