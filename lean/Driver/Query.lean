import DefraModel.Index.Maint
import DefraModel.Query.Model
import DefraModel.Query.Group
import DefraModel.Encoding.FieldValue
open Defra Defra.Query

namespace Driver.Query

def parseV (s : String) : Option V :=
  if s == "n" then some .null
  else if s == "b1" then some (.bool true)
  else if s == "b0" then some (.bool false)
  else if s.startsWith "i" then (s.drop 1).toString.toInt?.map .int
  else if s.startsWith "f" then (s.drop 1).toString.toInt?.map .flt
  else if s.startsWith "s" then (Bytes.ofHex (s.drop 1).toString).map .str
  else none

/-- split `s` at top-level commas (not inside parentheses) -/
def splitTop (cs : List Char) : List (List Char) :=
  let rec go (cs : List Char) (depth : Nat) (cur : List Char) (acc : List (List Char)) : List (List Char) :=
    match cs with
    | [] => (cur.reverse :: acc).reverse
    | c :: rest =>
      if c == '(' then go rest (depth + 1) (c :: cur) acc
      else if c == ')' then go rest (depth - 1) (c :: cur) acc
      else if c == ',' && depth == 0 then go rest depth [] (cur.reverse :: acc)
      else go rest depth (c :: cur) acc
  go cs 0 [] []

def parseF : Nat → String → Option F
  | 0, _ => none
  | fuel + 1, s =>
    if s == "T" then some .tt
    else if s.startsWith "and(" || s.startsWith "or(" || s.startsWith "not(" then
      let isAnd := s.startsWith "and("
      let isOr := s.startsWith "or("
      let inner := (s.toList.drop (if isAnd then 4 else if isOr then 3 else 4)).dropLast
      let parts := (splitTop inner).map String.ofList
      if isAnd || isOr then
        match parts with
        | [a, b] => do
          let fa ← parseF fuel a
          let fb ← parseF fuel b
          pure (if isAnd then .and fa fb else .or fa fb)
        | _ => none
      else match parts with
        | [a] => (parseF fuel a).map .not
        | _ => none
    else
      match s.splitOn ":" with
      | [op, f, v] =>
        if op == "like" || op == "nlike" || op == "ilike" || op == "nilike" then
          -- value token: <mode digit><hex of the pattern text without the % signs>
          let mode := ((v.take 1).toString.toNat?).getD 0
          match Bytes.ofHex (v.drop 1).toString with
          | some pat => some (.like f mode pat (op == "nlike" || op == "nilike") (op == "ilike" || op == "nilike"))
          | none => none
        else if op == "in" || op == "nin" then
          let vs := (v.splitOn ";").filterMap parseV
          some (if op == "in" then .inn f vs else .nin f vs)
        else do
          let x ← parseV v
          match op with
          | "eq" => pure (.eq f x)
          | "ne" => pure (.ne f x)
          | "gt" => pure (.gt f x)
          | "ge" => pure (.ge f x)
          | "lt" => pure (.lt f x)
          | "le" => pure (.le f x)
          | _ => none
      | _ => none

def parseOrder (s : String) : List OrderKey :=
  if s == "-" then [] else (s.splitOn ",").filterMap (fun p => match p.splitOn ":" with
    | [f, d] => some ⟨f, d == "d"⟩
    | _ => none)

def parseSel (s : String) : Option Sel :=
  match s.splitOn ":" with
  | ["docs"] => some .docs
  | ["count"] => some .count
  | ["sum", f] => some (.sum f)
  | ["avg", f] => some (.avg f)
  | ["sum2", f, g] => some (.sum2 f g)
  | ["avg2", f, g] => some (.avg2 f g)
  | ["min", f] => some (.min f)
  | ["max", f] => some (.max f)
  | _ => none

/-- a value in the token syntax of the operation lines -/
def showV : V → String
  | .null => "n"
  | .bool b => if b then "b1" else "b0"
  | .int i => s!"i{i}"
  | .flt n => s!"f{n}"
  | .str s => "s" ++ Bytes.render s

def hexDigits (n : Nat) : String :=
  let rec go (fuel n : Nat) (acc : List Char) : List Char :=
    match fuel with
    | 0 => acc
    | fuel + 1 => if n == 0 then acc else go fuel (n / 16) (Bytes.hexDigit (n % 16) :: acc)
  if n == 0 then "0" else String.ofList (go 20 n [])

def showRes : AggRes → String
  | .docs ids => if ids.isEmpty then "-" else ",".intercalate (ids.map (fun i => s!"d{i}"))
  | .int i => s!"int:{i}"
  | .num8 n => s!"num8:{n}"
  | .ratio s c =>
    let f : Float := (Float.ofInt s / 8.0) / Float.ofNat c
    s!"avgbits:{hexDigits f.toBits.toNat}"
  | .null => "null"

structure St where
  docs : List Doc := []
  ids : List (Nat × Bytes) := []     -- label ↦ docID bytes
  aux : List (Option Int × Int) := []  -- the second aggregate source: (v, w in eighths)
  /-- the secondary indexes the model maintains: (fields, entries as the maintenance model keeps them) -/
  idx : List (String × List OrderKey × List (List V × Nat)) := []

/-- IEEE-754 double bits of `n8 / 8` (driver only: Lean's runtime `Float`) -/
def f64BitsOfEighths (n8 : Int) : Nat := (Float.ofInt n8 / 8.0).toBits.toNat

/-- the indexed values of a document under an index's fields -/
def keyOf (ks : List OrderKey) (fields : List (String × V)) : List V :=
  ks.map (fun k => ((fields.find? (·.1 == k.field)).map (·.2)).getD .null)

/-- run one maintenance step on every index the model keeps -/
def maintain (st : List (String × List OrderKey × List (List V × Nat)))
    (docs : List (Nat × List (String × V))) (op : IndexMaint.Op (List (String × V))) :
    List (String × List OrderKey × List (List V × Nat)) :=
  st.map (fun ix =>
    let s : IndexMaint.St (List (String × V)) (List V) := ⟨docs, ix.2.2⟩
    (ix.1, ix.2.1, (IndexMaint.step (keyOf ix.2.1) s op).entries))

def toEncVal : V → Enc.Val
  | .null => .null
  | .bool b => .bool b
  | .int i => .int i
  | .flt n => .f64 (f64BitsOfEighths n)
  | .str s => .str s

def insertStr (x : String) : List String → List String
  | [] => [x]
  | y :: ys => if x ≤ y then x :: y :: ys else y :: insertStr x ys
def sortStr (l : List String) : List String := l.foldl (fun acc x => insertStr x acc) []

def step (st : St) (toks : List String) : St × String :=
  match toks with
  | ["case", _] => ({}, "ok")
  | ["malformed", _] => (st, "handled")
  | ["groupprobe", _] => (st, "ok")  -- judged by the harness: groups are the distinct value tuples with their multiplicities
  | ["doc", id, name, age, score, flag, docid] =>
    match id.toNat?, parseV name, parseV age, parseV score, parseV flag, Bytes.ofHex docid with
    | some i, some n, some a, some s, some f, some did =>
      let fs := [("name", n), ("age", a), ("score", s), ("flag", f)]
      ({ st with docs := st.docs ++ [{ id := i, fields := fs }],
                 ids := st.ids ++ [(i, did)],
                 idx := maintain st.idx (st.docs.map (fun d => (d.id, d.fields))) (.create i fs) }, "ok")
    | _, _, _, _, _, _ => (st, "bad-op")
  | ["aux", v, w8] => ({ st with aux := st.aux ++ [(v.toInt?, w8.toInt?.getD 0)] }, "ok")
  | ["upd", id, field, v] =>
    match id.toNat?, parseV v with
    | some i, some x =>
      let newFields := ((st.docs.find? (·.id == i)).map (fun d =>
        d.fields.map (fun p => if p.1 == field then (field, x) else p))).getD []
      ({ st with docs := st.docs.map (fun d => if d.id == i then
          { d with fields := d.fields.map (fun p => if p.1 == field then (field, x) else p) } else d),
                 idx := maintain st.idx (st.docs.map (fun d => (d.id, d.fields))) (.update i newFields) }, "ok")
    | _, _ => (st, "bad-op")
  | ["del", id] =>
    match id.toNat? with
    | some i => ({ st with docs := st.docs.filter (fun d => d.id != i),
                           idx := maintain st.idx (st.docs.map (fun d => (d.id, d.fields))) (.delete i) }, "ok")
    | none => (st, "bad-op")
  | ["idx", fields] =>
    -- CreateIndex: every live document is indexed; from here on the index is maintained incrementally
    let ks := parseOrder fields
    let built := (IndexMaint.build (keyOf ks) (st.docs.map (fun d => (d.id, d.fields)))).entries
    ({ st with idx := st.idx ++ [(fields, ks, built)] }, "ok")
  | ["keys", col, idx, fields] =>
    match col.toNat?, idx.toNat? with
    | some c, some ix =>
      let ks := parseOrder fields
      -- the entries as the maintenance model holds them (not recomputed from the documents)
      let held := ((st.idx.find? (·.1 == fields)).map (·.2.2)).getD
        (st.docs.map (fun d => (keyOf ks d.fields, d.id)))
      let entries := held.map (fun e =>
        let comps := (ks.zip e.1).map (fun kv => (toEncVal kv.2, kv.1.desc))
        let did := ((st.ids.find? (·.1 == e.2)).map (·.2)).getD []
        Bytes.render (Enc.indexKey c ix (comps ++ [(.str did, false)])))
      (st, s!"{entries.length} {",".intercalate (sortStr entries)}")
    | _, _ => (st, "bad-op")
  | ["g", a, b] =>
    match a.toInt?, b.toInt? with
    | some x, some y =>
      let rows := (groupedPair st.docs x y).map (fun r =>
        let key := match r.1 with | .bool true => "b1" | .bool false => "b0" | _ => "n"
        s!"{key}:{r.2.1}:{r.2.2.1}:{r.2.2.2.1}:{r.2.2.2.2.1}:{r.2.2.2.2.2}")
      (st, ",".intercalate (sortStr rows))
    | _, _ => (st, "bad-op")
  | ["qg", filt, fields] =>
    match parseF 12 filt with
    | some f =>
      let rows := (groupCounts (fields.splitOn ",") (st.docs.filter f.matches)).map (fun p =>
        "|".intercalate (p.1.map showV) ++ "=" ++ toString p.2)
      (st, if rows.isEmpty then "-" else ",".intercalate (sortStr rows))
    | none => (st, "bad-op")
  | ["q", filt, order, limit, offset, sel] =>
    match parseF 12 filt, limit.toNat?, offset.toNat?, parseSel sel with
    | some f, some l, some o, some s =>
      let q : Q := { filter := f, order := parseOrder order, limit := l, offset := o, sel := s }
      match aggregate2 q.sel (pipeline lessPinned (effective q) st.docs) st.aux with
      | some r => (st, showRes r)
      | none => (st, showRes (evalPinned q st.docs))
    | _, _, _, _ => (st, "bad-op")
  | _ => (st, "bad-op")

end Driver.Query
