import DefraModel.Encrypt
open Defra.Encrypt

/-! `drv encr`: replays the operation lines of the `encr` harness on the block-encryption model and prints, per
    operation, the classification of the blocks it writes, the secrets readable in the shared store, and what the
    two kinds of receivers end up with. -/
namespace Driver.Encr

structure W where
  s : St := {}
  cfg : Option Cfg := none
  live : Bool := false

def splitCsv (s : String) : List String :=
  if s.isEmpty then [] else s.splitOn ","

def sortStr (l : List String) : List String := (l.toArray.qsort (· < ·)).toList

def classOf (s : St) (b : Blk) (fresh : Bool) : String :=
  let _ := s
  match b.enc with
  | none => "clear"
  | some k => (if k.field.isSome then "field" else "doc") ++ (if fresh then "" else "^")

/-- run a save and render the blocks it wrote: composite first, then the fields by name -/
def doSave (s : St) (ctx : Option Cfg) (fs : List FName) : St × String :=
  let fs := sortStr fs
  let (s, toks) := fs.foldl (fun (acc : St × List String) f =>
    let (s, toks) := acc
    let (k, fresh) := determine s ctx (some f)
    let s' := addDelta s ctx (some f)
    (s', toks ++ [f ++ "=" ++ classOf s ⟨some f, s.nextOp, k, false⟩ fresh])) (s, [])
  let (k, fresh) := determine s ctx none
  let s' := addDelta s ctx none
  let s' := { s' with nextOp := s'.nextOp + 1 }
  (s', " ".intercalate (("C=" ++ classOf s ⟨none, s.nextOp, k, false⟩ fresh) :: toks))

def showLeak (p : Nat × FName) : String := p.2 ++ "@" ++ toString p.1

def dedup (l : List String) : List String :=
  l.foldl (fun acc x => if acc.contains x then acc else acc ++ [x]) []

def leaksOf (s : St) : List String :=
  sortStr (dedup (s.blocks.filterMap (fun b => b.plain.map showLeak)))

/-- what a key-less receiver keeps per register field: the value of the greatest readable operation -/
def storedLatest (keys : List Key) (blocks : List Blk) : List String :=
  let st := stored keys blocks
  let fields := dedup (st.map (·.2))
  let latest := fields.filterMap (fun f =>
    if f == "pts" then none else
    let ops := (st.filter (·.2 == f)).map (·.1)
    some (showLeak (ops.foldl max 0, f)))
  sortStr latest

def step (w : W) (toks : List String) : W × String :=
  match toks with
  | ["case", _] => ({}, "ok")
  | ["create", isdoc, flds, set] =>
    let fl := splitCsv ((flds.drop 7).toString)
    let cfg : Option Cfg :=
      if isdoc == "isdoc=1" || !fl.isEmpty then some ⟨isdoc == "isdoc=1", fl⟩ else none
    let (s, out) := doSave {} cfg (splitCsv ((set.drop 4).toString))
    ({ s := s, cfg := cfg, live := true }, out)
  | ["update", set] =>
    let (s, out) := doSave w.s none (splitCsv ((set.drop 4).toString))
    ({ w with s := s }, out)
  | ["delete"] =>
    let (s, out) := doSave w.s none []
    ({ w with s := s }, out)
  | ["twin", set] => ({ w with s := mergeTwin w.s (sortStr (splitCsv ((set.drop 4).toString))) }, "ok")
  | ["scan"] => (w, "leaks=[" ++ ",".intercalate (leaksOf w.s) ++ "] keyleaks=0")
  | ["read"] => (w, "ok")
  | ["recv", "nokey"] =>
    (w, "doc=" ++ (if docVisible [] w.s.blocks then "1" else "0") ++ " stored=[" ++ ",".intercalate (storedLatest [] w.s.blocks) ++ "]")
  | ["recv", "key"] => (w, "same")
  | _ => (w, "bad-op")

end Driver.Encr
