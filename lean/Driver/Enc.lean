import DefraModel.Encoding.FieldValue
open Defra Defra.Enc

namespace Driver.Enc

def hexNat (s : String) : Option Nat :=
  s.toList.foldl (fun acc c => do
    let a ← acc
    let d ← Bytes.hexVal c
    pure (a * 16 + d)) (some 0)

def natHex (n : Nat) : String :=
  if n = 0 then "0" else
  let rec go (fuel n : Nat) (acc : List Char) : List Char :=
    match fuel with
    | 0 => acc
    | fuel + 1 => if n = 0 then acc else go fuel (n / 16) (Bytes.hexDigit (n % 16) :: acc)
  String.ofList (go 64 n [])

/-- parse a value spec from tokens; returns value and remaining tokens -/
def parseVal : List String → Option (Val × List String)
  | "null" :: r => some (.null, r)
  | "bool" :: b :: r => some (.bool (b == "1"), r)
  | "int" :: i :: r => do let v ← i.toInt?; pure (.int v, r)
  | "f32" :: h :: r => do let v ← hexNat h; pure (.f32 v, r)
  | "f64" :: h :: r => do let v ← hexNat h; pure (.f64 v, r)
  | "str" :: h :: r => do let v ← Bytes.ofHex h; pure (.str v, r)
  | "time" :: s :: n :: r => do let a ← s.toInt?; let b ← n.toInt?; pure (.time a b, r)
  | "json" :: np :: r => do
      let n ← np.toNat?
      let rec parts (k : Nat) (toks : List String) (acc : List JPart) : Option (List JPart × List String) :=
        match k, toks with
        | 0, t => some (acc.reverse, t)
        | k + 1, "i" :: t => parts k t (.index :: acc)
        | k + 1, "p" :: h :: t => do let b ← Bytes.ofHex h; parts k t (.prop b :: acc)
        | _, _ => none
      let (ps, r) ← parts n r []
      match r with
      | "s" :: h :: r => do let b ← Bytes.ofHex h; pure (.json ps (.str b), r)
      | "n" :: h :: r => do let v ← hexNat h; pure (.json ps (.num v), r)
      | "b" :: b :: r => pure (.json ps (.bool (b == "1")), r)
      | "z" :: r => pure (.json ps .null, r)
      | _ => none
  | _ => none

def showVal : Val → String
  | .null => "null"
  | .bool b => s!"bool {if b then 1 else 0}"
  | .int i => s!"int {i}"
  | .f32 u => s!"f32 {natHex u}"
  | .f64 u => s!"f64 {natHex u}"
  | .str s => s!"str {Bytes.render s}"
  | .time s n => s!"time {s} {n}"
  | .json _ _ => "json"

/-- value order of the model: -1/0/1, or `x` when the two values are not comparable
    (different kinds, NaN, json with different paths/kinds) -/
def cmpVal : Val → Val → String
  | .null, .null => "0"
  | .null, _ => "-1"
  | _, .null => "1"
  | .bool a, .bool b => if a == b then "0" else if !a && b then "-1" else "1"
  | .int a, .int b => if a < b then "-1" else if a = b then "0" else "1"
  | .f32 a, .f32 b =>
    if f32.isNaN a || f32.isNaN b then "x" else if f32.flt a b then "-1" else if f32.flt b a then "1" else "0"
  | .f64 a, .f64 b =>
    if f64.isNaN a || f64.isNaN b then "x" else if f64.flt a b then "-1" else if f64.flt b a then "1" else "0"
  | .str a, .str b => toString (Bytes.cmp a b)
  | .time s n, .time s' n' =>
    if s < s' || (s == s' && n < n') then "-1" else if s == s' && n == n' then "0" else "1"
  | .json p (.str a), .json q (.str b) => if p == q then toString (Bytes.cmp a b) else "x"
  | .json p (.num a), .json q (.num b) =>
    if p == q then (if f64.isNaN a || f64.isNaN b then "x" else if f64.flt a b then "-1" else if f64.flt b a then "1" else "0") else "x"
  | .json p (.bool a), .json q (.bool b) =>
    if p == q then (if a == b then "0" else if !a && b then "-1" else "1") else "x"
  | .json p .null, .json q .null => if p == q then "0" else "x"
  | _, _ => "x"

def parseFields : Nat → List String → Option (List (Val × Bool))
  | 0, _ => some []
  | k + 1, d :: toks => do
    let (v, r) ← parseVal toks
    let rest ← parseFields k r
    pure ((v, d == "1") :: rest)
  | _, _ => none

def step (toks : List String) : String :=
  match toks with
  | "val" :: d :: rest =>
    match parseVal rest with
    | some (v, []) =>
      let desc := d == "1"
      let e := fieldValue desc v
      let dec := match v with
        | .json _ _ => "-"
        | _ => match decFieldValue desc (e ++ [0x2f, 0x99]) with
          | some (v', [0x2f, 0x99]) => showVal v'
          | some _ => "badrest"
          | none => "err"
      s!"{Bytes.render e} {dec}"
    | _ => "bad-op"
  | "cmp" :: d :: rest =>
    match parseVal rest with
    | some (a, rest') =>
      match parseVal rest' with
      | some (b, []) =>
        let desc := d == "1"
        s!"{cmpVal a b} {Bytes.cmp (fieldValue desc a) (fieldValue desc b)}"
      | _ => "bad-op"
    | none => "bad-op"
  | "key" :: c :: i :: n :: rest =>
    match c.toNat?, i.toNat?, n.toNat? with
    | some c, some i, some n =>
      match parseFields n rest with
      | some fs => let k := indexKey c i fs; s!"{Bytes.render k} {Bytes.render (prefixEnd k)}"
      | none => "bad-op"
    | _, _, _ => "bad-op"
  | "pend" :: h :: [] =>
    match Bytes.ofHex h with
    | some b => Bytes.render (prefixEnd b)
    | none => "bad-op"
  | "uv" :: n :: [] =>
    match n.toNat? with
    | some v =>
      let a := uvarintAsc v; let d := uvarintDesc v
      let da := match decUvarintAsc a with | some (x, []) => toString x | _ => "err"
      let dd := match decUvarintDesc d with | some (x, []) => toString x | _ => "err"
      s!"{Bytes.render a} {Bytes.render d} {da} {dd}"
    | none => "bad-op"
  | "dec" :: d :: h :: [] =>
    -- decoder on arbitrary bytes (malformed stream)
    match Bytes.ofHex h with
    | some b =>
      match decFieldValue (d == "1") b with
      | some (v, r) => s!"{showVal v} {Bytes.render r}"
      | none => "err"
    | none => "bad-op"
  | _ => "bad-op"

end Driver.Enc
