import DefraModel.Backup.Export
open Defra.Backup.Export

/-! `drv backup`: runs the mirror of `basicExport` / `basicImport` (`Backup/Export.lean`) on the reference graph of the
    self-referencing collection of every generated database and prints equality patterns of the identifiers, which the
    harness computes from the real export file and the real imported database.  It also evaluates the hypothesis
    `noChain` of the round-trip theorem and its conclusion `roundTripOk`: `THEOREM-REFUTED` can only be printed if the
    two disagree. -/
namespace Driver.Backup

structure W where
  store : List Emp := []

def parseId (s : String) : Id := (s.splitOn ".").map String.toNat!

def idxOf {α : Type} (p : α → Bool) (l : List α) : Option Nat :=
  let i := l.findIdx p
  if i < l.length then some i else none

def fkPat (file : List Rec) : Option Id → String
  | none => "none"
  | some w =>
    match idxOf (fun r => r.new == w) file with
    | some j => s!"new{j}"
    | none =>
      match idxOf (fun r => r.old == w) file with
      | some j => s!"old{j}"
      | none => "dangling"

def exportSig (file : List Rec) : String :=
  " ".intercalate (file.map (fun r => (if r.new == r.old then "same" else "diff") ++ ":" ++ fkPat file r.fk))

def importSig (file : List Rec) : String :=
  let docs := importImpl file
  " ".intercalate (docs.map (fun d =>
    (match idxOf (fun r => r.new == d.id) file with
     | some j => s!"id=new{j}"
     | none => "id=other") ++ ":" ++
    (match d.boss with
     | none => "none"
     | some w => match idxOf (fun e => e.id == w) docs with
       | some j => s!"doc{j}"
       | none => "dangling")))

def step (w : W) (toks : List String) : W × String :=
  match toks with
  | "case" :: _ => ({}, "ok")
  | ["emp", i, c, b] =>
    ({ w with store := w.store ++ [⟨parseId i, c.toNat!, if b == "~" then none else some (parseId b)⟩] }, "ok")
  | ["export"] =>
    let hyp := noChain w.store && decide ((w.store.map (·.id)).Nodup)
    (w, exportSig (exportImpl w.store) ++ s!" | hyp={hyp}")
  | ["import"] =>
    let hyp := noChain w.store && decide ((w.store.map (·.id)).Nodup)
    let rt := roundTripOk w.store
    (w, importSig (exportImpl w.store) ++ s!" | roundtrip={rt}" ++ (if hyp && !rt then " THEOREM-REFUTED" else ""))
  | _ => (w, "bad-op")

end Driver.Backup
