import DefraModel.Schema
open Defra.Schema

/-! `drv schema`: replays the `schema` harness's histories on the schema-evolution model. -/
namespace Driver.Schema

structure W where
  nodes : List Node := []
  labels : List Version := []      -- index i ↦ label v(i+1), in order of first appearance on any node
  docs : List String := []         -- index ↦ document label

def sortStr (l : List String) : List String := (l.toArray.qsort (· < ·)).toList

def labelOf (w : W) (v : Version) : String :=
  match w.labels.findIdx? (· == v) with
  | some i => "v" ++ toString (i + 1)
  | none => "v?"

def versionOf (w : W) (l : String) : Option Version :=
  ((l.drop 1).toString.toNat?).bind (fun k => if k == 0 then none else w.labels[k - 1]?)

def docIdx (w : W) (l : String) : Option Nat := w.docs.findIdx? (· == l)

def setNode (w : W) (i : Nat) (n : Node) : W := { w with nodes := w.nodes.set i n }

/-- `"key": "value"` pairs of a flat JSON object with string values -/
def pairs (js : String) : List (String × String) :=
  ((js.splitOn "\"").drop 1).toArray |> fun a =>
    (List.range (a.size / 4)).filterMap (fun i =>
      match a[4 * i]?, a[4 * i + 2]? with
      | some k, some v => some (k, v)
      | _, _ => none)

/-- equal-length lower-case strings as numbers (base 256) and back -/
def encode (v : String) : Nat := v.toList.foldl (fun acc c => acc * 256 + c.toNat) 0

def decode (n : Nat) : String :=
  let rec go (fuel n : Nat) (acc : List Char) : List Char :=
    match fuel with
    | 0 => acc
    | fuel + 1 => if n == 0 then acc else go fuel (n / 256) (Char.ofNat (n % 256) :: acc)
  String.ofList (go 16 n [])

def showVal (o : Option Nat) : String := match o with | some v => "\"" ++ decode v ++ "\"" | none => "null"

def dump (w : W) (n : Node) : String :=
  let fs := sortStr n.active
  let items := n.docs.map (fun d =>
    (w.docs[d]?.getD "?") ++ ":{" ++ ",".intercalate (fs.map (fun f => f ++ "=" ++ showVal (read n d f))) ++ "}")
  labelOf w n.active ++ " [" ++ ",".intercalate fs ++ "] " ++ " ".intercalate (sortStr items)

def step (w : W) (toks : List String) : W × String :=
  match toks with
  | ["case", _] => ({}, "ok")
  | ["node", _] =>
    let w := { w with nodes := w.nodes ++ [{}], labels := if w.labels.isEmpty then [["name"]] else w.labels }
    (w, "v1")
  | ["patch", ni, f, _, sd] =>
    match w.nodes[ni.toNat!]? with
    | none => (w, "bad-node")
    | some n =>
      let v := n.active ++ [f]
      let isNew := !w.labels.contains v
      let w := if isNew then { w with labels := w.labels ++ [v] } else w
      let n' := patch n f (sd == "1")
      let w := setNode w ni.toNat! n'
      (w, s!"new={if isNew then labelOf w v else "-"} active={labelOf w n'.active} query={labelOf w n'.active}")
  | ["active", ni, l] =>
    match w.nodes[ni.toNat!]?, versionOf w l with
    | some n, some v =>
      if n.versions.contains v then
        let n' := setActive n v
        (setNode w ni.toNat! n', s!"new=- active={labelOf w v} query={labelOf w v}")
      else (w, "error:unknown-version")
    | _, _ => (w, "error:unknown-version")
  | "create" :: ni :: label :: rest =>
    match w.nodes[ni.toNat!]? with
    | none => (w, "bad-node")
    | some n =>
      let d := w.docs.length
      let n' := (pairs (" ".intercalate rest)).foldl (fun n kv => write n d kv.1 (encode kv.2)) n
      (setNode { w with docs := w.docs ++ [label] } ni.toNat! n', "ok")
  | "update" :: ni :: label :: rest =>
    match w.nodes[ni.toNat!]?, docIdx w label with
    | some n, some d =>
      if n.docs.contains d then
        let n' := (pairs (" ".intercalate rest)).foldl (fun n kv => write n d kv.1 (encode kv.2)) n
        (setNode w ni.toNat! n', "ok")
      else (w, "absent")
    | _, _ => (w, "absent")
  | ["dump", ni] =>
    match w.nodes[ni.toNat!]? with
    | some n => (w, dump w n)
    | none => (w, "bad-node")
  | ["sync", a, b] =>
    match w.nodes[a.toNat!]?, w.nodes[b.toNat!]? with
    | some s, some d => (setNode w b.toNat! (sync s d), "ok")
    | _, _ => (w, "bad-node")
  | ["agree"] =>
    match w.nodes with
    | [a, b] =>
      let common := a.active.filter (b.active.contains ·)
      let both := a.docs.filter (b.docs.contains ·)
      let diffs := (both.map (fun d => (common.filter (fun f => read a d f != read b d f)).length)).sum
      (w, s!"diffs={diffs}")
    | _ => (w, "n/a")
  | _ => (w, "bad-op")

end Driver.Schema
