import DefraModel.Acp
open Defra.Acp

/-! `drv acp`: replays the `acp` harness's history lines on the access-control model and prints, per requester, what
    each access path yields. -/
namespace Driver.Acp

def sortStr (l : List String) : List String := (l.toArray.qsort (· < ·)).toList

def csv (l : List String) : String := "[" ++ ",".intercalate l ++ "]"

def whoOf (s : String) : Who :=
  if s == "O" then .owner else if s == "R" then .actor 0 else if s == "S" then .actor 1 else .anon

def targetOf (s : String) : Target :=
  if s == "*" then .all else if s == "R" then .actor 0 else .actor 1

def relOf (s : String) : Rel :=
  if s == "reader" then .reader else if s == "updater" then .updater else .deleter

/-- the string value following `"key": "` in a JSON text, if any -/
def extractStr (js key : String) : Option String :=
  match js.splitOn ("\"" ++ key ++ "\": \"") with
  | _ :: rest :: _ => some ((rest.splitOn "\"").headD "")
  | _ => none

def showOutcome : Outcome → String
  | .ok => "ok" | .denied => "denied" | .error => "error"

def visLine (w : Who) (db : DB) (note : Bool) : String :=
  let labels := db.map (·.label)
  let sc := sortStr (scan w db 0 ++ scan w db 1 ++ scan w db 2)
  let idx := sortStr ((db.filter (fun d => d.col == 0)).filterMap (fun d =>
    if (indexLookup w db d.name).contains d.label then some d.label else none))
  let bi := sortStr (labels.filter (fun l => !(byId w db l).isEmpty))
  let tt := sortStr (labels.filter (fun l => !(timeTravel w db l).isEmpty))
  let jn := sortStr ((joinChildren w db).map (fun p => p.1 ++ ">" ++ p.2) ++ (joinParent w db).map (fun p => p.1 ++ "<" ++ p.2))
  let cm := sortStr (commits w db)
  let cc := sortStr (labels.filter (fun l => !(commitsByCid w db l).isEmpty))
  let wd := sortStr (scanAll w db 0 ++ scanAll w db 1 ++ scanAll w db 2)
  s!"scan={csv sc} index={csv idx} byid={csv bi} tt={csv tt} join={csv jn} count={count w db 0}+{count w db 1}+ commits={csv cm} commitcid={csv cc} withdeleted={csv wd}" ++
    (if note then s!" ttcol={csv (sortStr (timeTravelCollection w db 2))}" else "")

structure W where
  db : DB := []
  note : Bool := false

def stepDB (db : DB) (note : Bool) (toks : List String) : DB × String :=
  match toks with
  | "doc" :: label :: col :: owner :: rest =>
    let js := " ".intercalate rest
    let d : Doc := { label := label, col := if col == "Author" then 0 else if col == "Book" then 1 else 2, registered := owner == "O",
                     name := (extractStr js "name").getD "",
                     parent := (extractStr js "author_id").map (fun s => (s.drop 1).toString) }
    ((Defra.Acp.step db (.create d)).1, "ok")
  | ["rel", kind, rel, label, tgt] =>
    let op := if kind == "grant" then Op.grant label (targetOf tgt) (relOf rel) else Op.revoke label (targetOf tgt) (relOf rel)
    let (db', o) := Defra.Acp.step db op
    (db', showOutcome o)
  | "upd" :: who :: label :: rest =>
    let (db', o) := Defra.Acp.step db (.update (whoOf who) label (extractStr (" ".intercalate rest) "name"))
    (db', showOutcome o)
  | ["recreate", _, label] =>
    -- a create that addresses an existing document fails for every requester and changes nothing
    match Defra.Acp.find db label with
    | some d => let (db', o) := Defra.Acp.step db (.create d); (db', showOutcome o)
    | none => (db, "error")
  | ["del", who, label] =>
    let (db', o) := Defra.Acp.step db (.delete (whoOf who) label)
    (db', showOutcome o)
  | "updall" :: who :: col :: _ =>
    let c := if col == "Author" then 0 else 1
    let w := whoOf who
    -- the filter yields every live readable document; one that may not be updated fails the whole request
    let readable := db.filter (fun d => d.col == c && !d.deleted && canRead w d)
    if readable.any (fun d => !canUpdate w d) then (db, "error []")
    else (db, csv (sortStr (readable.map (·.label))))
  | ["vis", who] => (db, visLine (whoOf who) db note)
  | ["check", _] => (db, "same")
  | "sub" :: who :: label :: _ =>
    match find db label with
    | some d => if d.deleted then (db, "update-denied") else (db, if canRead (whoOf who) d then "got" else "none")
    | none => (db, "update-denied")
  | _ => (db, "bad-op")

def step (w : W) (toks : List String) : W × String :=
  match toks with
  | ["case", _] => ({}, "ok")
  | ["case", _, "note"] => ({ note := true }, "ok")
  | _ => let (db, o) := stepDB w.db w.note toks; ({ w with db := db }, o)

end Driver.Acp
