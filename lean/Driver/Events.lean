import DefraModel.Events
open Defra.Events

/-! `drv events`: the bus model. `step <subscriber ids> <new commit labels>`: the listed subscribers are the
    active ones (subscribe/unsubscribe commands are derived from the change of that set), every new commit is
    published once as an `update` event; the output is what each subscriber received in this step. -/
namespace Driver.Events

structure St where
  bus : Bus := {}
  active : List Nat := []
  seen : Nat → Nat := fun _ => 0   -- how many messages of each subscriber have been printed

def parseLabel (s : String) : Option Nat := (s.drop 1).toNat?
def csvNat (s : String) : List Nat := if s == "-" then [] else (s.splitOn ",").filterMap String.toNat?
def csvLab (s : String) : List Nat := if s == "-" then [] else (s.splitOn ",").filterMap parseLabel

def insertSorted (x : Nat) : List Nat → List Nat
  | [] => [x]
  | y :: ys => if x ≤ y then x :: y :: ys else y :: insertSorted x ys
def sortNat (l : List Nat) : List Nat := l.foldl (fun acc x => insertSorted x acc) []

/-- the harness sorts labels as strings -/
def strLe (a b : String) : Bool := a ≤ b
def insertStr (x : String) : List String → List String
  | [] => [x]
  | y :: ys => if x ≤ y then x :: y :: ys else y :: insertStr x ys
def sortStr (l : List String) : List String := l.foldl (fun acc x => insertStr x acc) []

def step (s : St) (toks : List String) : St × String :=
  match toks with
  | ["case", _, _] => ({}, "ok")
  | ["gen", _, _, _] => (s, "ok")   -- the generated operations of the case (for replays)
  | ["step", ids, labs] =>
    let want := csvNat ids
    let cmds : List Cmd :=
      (s.active.filter (fun i => !want.contains i)).map Cmd.unsubscribe ++
      (want.filter (fun i => !s.active.contains i)).map (fun i => Cmd.subscribe i ["update", "verif-barrier"]) ++
      (csvLab labs).map (fun l => Cmd.publish "update" l)
    let bus := run s.bus cmds
    let parts := want.map (fun i =>
      let all := bus.received i
      let new := (all.drop (s.seen i)).map (fun m => s!"c{m.2}")
      let shown := if new.isEmpty then "-" else ",".intercalate (sortStr new)
      s!"s{i}:{shown}")
    let seen' := fun i => if want.contains i then (bus.received i).length else s.seen i
    ({ bus := bus, active := want, seen := seen' }, " ".intercalate parts)
  | _ => (s, "bad-op")

end Driver.Events
