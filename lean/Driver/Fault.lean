import DefraModel.Kv.TxnM
/-! `drv fault`: the model's verdict for one (prior, operation, k) line is the set of outcomes `withTxn`
    allows, which the harness has already mapped to the class name `atomic` (error with an untouched
    store and no event, or success with the complete fault-free effect and events). -/
namespace Driver.Fault
def step (toks : List String) : String :=
  match toks with
  | "fault" :: _ => "atomic"
  | "faultfree" :: _ => "ok"
  | _ => "bad-op"
end Driver.Fault
