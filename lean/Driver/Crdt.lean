import DefraModel.Crdt.Model
import DefraModel.Crdt.Versioned
import DefraModel.Crdt.WfCheck
open Defra Defra.Crdt

namespace Driver.Crdt

structure World where
  blocks : Blocks := []
  reps : Array Replica := #[]
  /-- ghost: per replica, the composites (and collection blocks) merged so far -/
  merged : Array (List Nat) := #[]
  /-- `wfCheck blocks`, cached for the store of `wfLen` blocks -/
  wfLen : Nat := 0
  wfRes : Bool := true
  deriving Inhabited

def parseLabel (s : String) : Option Nat := (s.drop 1).toNat?

def parseCsv (s : String) : List Nat :=
  if s == "-" then [] else (s.splitOn ",").filterMap parseLabel

def insertSorted (x : Nat) : List Nat → List Nat
  | [] => [x]
  | y :: ys => if x ≤ y then x :: y :: ys else y :: insertSorted x ys

def sortNat (l : List Nat) : List Nat := l.foldl (fun acc x => insertSorted x acc) []

def showLabels (l : List Nat) : String :=
  if l.isEmpty then "-" else ",".intercalate ((sortNat l).map (fun n => s!"c{n}"))

def fieldOrder : List String := ["name", "age", "score", "flag", "points", "bal"]

def showView (s : DocState) : String :=
  let del := match s.vals.marker with | none => "-" | some false => "0" | some true => "1"
  let vals := fieldOrder.filterMap (fun f =>
    match s.vals.lww f with
    | some (_, v) => if v == cborNil then none else some s!"{f}:{Bytes.render v}"
    | none => match s.vals.ctr f with
      | some i => some s!"{f}:{i}"
      | none => none)
  let fh := fieldOrder.filterMap (fun f =>
    let h := s.fheads f
    if h.isEmpty then none else some s!"{f}:{showLabels h}")
  let vs := if vals.isEmpty then "-" else ",".intercalate vals
  let fhs := if fh.isEmpty then "-" else ";".intercalate fh
  s!"del={del} vals={vs} heads={showLabels s.heads} fheads={fhs}"

def showVals (v : Vals) : String :=
  let del := match v.marker with | none => "-" | some false => "0" | some true => "1"
  let vals := fieldOrder.filterMap (fun f =>
    match v.lww f with
    | some (_, x) => if x == cborNil then none else some s!"{f}:{Bytes.render x}"
    | none => match v.ctr f with
      | some i => some s!"{f}:{i}"
      | none => none)
  let vs := if vals.isEmpty then "-" else ",".intercalate vals
  s!"del={del} vals={vs}"

/-- the comparable projection of a state (what `showView` prints) for mirror-vs-spec comparison -/
def specAgrees (w : World) (r : Nat) (d : String) : Bool :=
  let s := (w.reps[r]!).doc d
  let S := (w.merged[r]!)
  let c := canon w.blocks d S
  showView s == showView c

def closeUnder (bs : Blocks) (start : Nat) (acc : List Nat) : List Nat :=
  -- parents closure; for collection blocks also the linked composite's closure
  let rec go (fuel : Nat) (todo : List Nat) (acc : List Nat) : List Nat :=
    match fuel, todo with
    | 0, _ => acc
    | _, [] => acc
    | fuel + 1, c :: rest =>
      if acc.contains c then go fuel rest acc
      else match bs.get? c with
        | none => go fuel rest acc
        | some b =>
          let extra := if b.kind == .col then b.links else []
          go fuel (b.parents ++ extra ++ rest) (acc ++ [c])
  go (4 * bs.length + 8) [start] acc

def viewLine (w : World) (r : Nat) (d : String) : String :=
  let v := showView ((w.reps[r]!).doc d)
  if specAgrees w r d then v else v ++ " SPEC-DIFFERS:" ++ showView (canon w.blocks d (w.merged[r]!))

def cx (w : World) : Ctx := { blocks := w.blocks, known := fun l => (w.blocks.get? l).isSome }

def sameSet (a b : List Nat) : Bool := sortNat a == sortNat b

def maxHeight (bs : Blocks) (ids : List Nat) : Nat :=
  ids.foldl (fun m c => match bs.get? c with | some b => max m b.height | none => m) 0

/-- the `AddDelta` rule for a locally written block: parents are exactly the current heads and
    height is the greatest head height plus one -/
def addDeltaOk (bs : Blocks) (heads : List Nat) (b : Block) : Bool :=
  sameSet b.parents heads && b.height == maxHeight bs heads + 1

def step (w : World) (toks : List String) : World × String :=
  match toks with
  -- a collection with more than twenty fields: every commit stands one above its highest parent, and its parents are
  -- commits of its own field (the head-set theorems are per field; the probe is judged by the harness)
  | ["wideprobe", _] => (w, "bad=0")
  | ["case", _, n, _] =>
    let k := n.toNat?.getD 0
    ({ blocks := [], reps := Array.replicate k ({} : Replica), merged := Array.replicate k ([] : List Nat) }, "ok")
  | ["block", l, kind, doc, h, ps, ls, delta] =>
    match parseLabel l, h.toNat? with
    | some id, some height =>
      let k : Option Kind :=
        if kind == "C" then some .comp else if kind == "K" then some .col
        else if kind.startsWith "F:" then some (.field (kind.drop 2).toString) else none
      let d : Option Delta :=
        if delta == "col" then some .col
        else if delta == "comp:0" then some (.comp false)
        else if delta == "comp:1" then some (.comp true)
        else if delta.startsWith "ctr:" then (delta.drop 4).toString.toInt?.map .ctr
        else if delta.startsWith "lww:" then (Bytes.ofHex (delta.drop 4).toString).map .lww
        else none
      match k, d with
      | some k, some d =>
        let blk : Block := Block.mk id k doc height (parseCsv ps) (parseCsv ls) d
        ({ w with blocks := w.blocks ++ [blk] }, "ok")
      | _, _ => (w, "bad-op")
    | _, _ => (w, "bad-op")
  | ["local", r, doc, l] =>
    match r.toNat?, parseLabel l with
    | some r, some id =>
      match w.blocks.get? id with
      | none => (w, "unknown-block")
      | some b =>
        let rep := w.reps[r]!
        let s := rep.doc doc
        -- AddDelta rule for the composite and every field block it links
        let okC := addDeltaOk w.blocks s.heads b
        let okF := b.links.all (fun fl => match w.blocks.get? fl with
          | some fb => isMerged w.blocks (headsOf s fb.kind) fb.id fb.height || addDeltaOk w.blocks (headsOf s fb.kind) fb
          | none => false)
        -- the hypotheses of `local_write_is_a_delivery` (Props/C01): the new commit is not merged, its parents are
        let hypLocal := !(b.kind == .comp) ||
          (!isMerged w.blocks s.heads b.id b.height &&
            b.parents.all (fun p => match w.blocks.get? p with
              | some pb => isMerged w.blocks s.heads p pb.height
              | none => true))
        let rep' := processBlock (cx w) 4 rep b
        let w' := { w with reps := w.reps.set! r rep', merged := w.merged.set! r (closeUnder w.blocks id (w.merged[r]!)) }
        let v := viewLine w' r doc
        ((w', if okC && okF then v else v ++ " BAD-ADD-DELTA").1,
          (if okC && okF then v else v ++ " BAD-ADD-DELTA") ++ (if hypLocal then "" else " LOCAL-WRITE-HYPOTHESIS-FALSE"))
    | _, _ => (w, "bad-op")
  | ["localcol", r, l] =>
    match r.toNat?, parseLabel l with
    | some r, some id =>
      match w.blocks.get? id with
      | none => (w, "unknown-block")
      | some b =>
        let rep := w.reps[r]!
        let ok := addDeltaOk w.blocks rep.colHeads b
        let rep' := { rep with colHeads := updateHeads (cx w).known rep.colHeads b }
        let w' := { w with reps := w.reps.set! r rep', merged := w.merged.set! r (closeUnder w.blocks id (w.merged[r]!)) }
        (w', s!"heads={showLabels rep'.colHeads}" ++ (if ok then "" else " BAD-ADD-DELTA"))
    | _, _ => (w, "bad-op")
  | ["deliver", r, doc, l] =>
    match r.toNat?, parseLabel l with
    | some r, some id =>
      match w.blocks.get? id with
      | none => (w, "unknown-block")
      | some b =>
        -- the hypotheses of the end-to-end merge theorem (Props/C02), evaluated on this store and these heads
        let w := if w.wfLen == w.blocks.length then w else { w with wfLen := w.blocks.length, wfRes := wfCheck3 w.blocks }
        let s0 := (w.reps[r]!).doc b.doc
        let failed := (if w.wfRes then [] else ["store"]) ++ (if b.kind == .comp then [] else ["kind"]) ++
          (if headsCheck w.blocks s0.heads then [] else ["heads"]) ++ (if kinvCheck w.blocks s0 then [] else ["kinv"]) ++
          (if linkInvCheck w.blocks s0 then [] else ["linkinv"])
        let hyp := failed.isEmpty
        let rep' := mergeDoc (cx w) (w.reps[r]!) b
        let w' := { w with reps := w.reps.set! r rep', merged := w.merged.set! r (closeUnder w.blocks id (w.merged[r]!)) }
        (w', "ok " ++ viewLine w' r doc ++ (if hyp then "" else " MERGE-THEOREM-HYPOTHESIS-FALSE:" ++ ",".intercalate failed))
    | _, _ => (w, "bad-op")
  | ["delivercol", r, l] =>
    match r.toNat?, parseLabel l with
    | some r, some id =>
      match w.blocks.get? id with
      | none => (w, "unknown-block")
      | some b =>
        let rep' := mergeCol (cx w) (w.reps[r]!) b
        let w' := { w with reps := w.reps.set! r rep', merged := w.merged.set! r (closeUnder w.blocks id (w.merged[r]!)) }
        (w', s!"ok heads={showLabels rep'.colHeads}")
    | _, _ => (w, "bad-op")
  | ["view", r, doc] =>
    match r.toNat? with
    | some r => (w, viewLine w r doc)
    | none => (w, "bad-op")
  | ["sub", _, doc, l] | ["at", _, doc, l] =>
    match parseLabel l with
    | some id =>
      -- mirror of the versioned fetcher, and the spec canon(closure of the commit)
      let v := versionedVals w.blocks id
      let spec := (canon w.blocks doc (closeUnder w.blocks id [])).vals
      let out := showVals v
      (w, if out == showVals spec then out else out ++ " SPEC-DIFFERS:" ++ showVals spec)
    | none => (w, "bad-op")
  | ["noop", _, _] => (w, "err")
  | ["quiescent"] => (w, "ok")
  | _ => (w, "bad-op")

end Driver.Crdt
