import DefraModel.Restart
open Defra.Restart

/-! `drv restart`: replays the `restart` harness's histories on the persisted-state / cache model. -/
namespace Driver.Restart

structure DocRec where
  label : String
  col : String
  deleted : Bool := false
  granted : Bool := false

structure W where
  n : Node := {}
  docs : List DocRec := []

def catalogue (t : String) : List String × List String :=
  if t == "K1" then (["name", "n"], [])
  else if t == "K2" then (["title", "k", "flag"], [])
  else if t == "K3" then (["a", "b"], ["a"])
  else if t == "K4" then (["x", "y"], [])
  else (["name", "age"], [])

def hasCol (w : W) (c : String) : Bool := w.n.mem.cols.any (·.name == c)

def dumpLine (w : W) : String :=
  let cols := w.n.mem.cols.map (fun c =>
    let fs := (sortNames (c.fields.map (·.1))).map (fun f => f ++ "#" ++ toString (((c.fields.find? (·.1 == f)).map (·.2)).getD 0))
    let is := (sortNames (c.indexes.map (·.name))).map (fun nm => nm ++ "#" ++ toString (((c.indexes.find? (·.name == nm)).map (·.id)).getD 0))
    let live := w.docs.filter (fun d => d.col == c.name && !d.deleted)
    let reader := if c.name == "P" then (live.filter (·.granted)).length else live.length
    s!"{c.name}#{c.shortId}({",".intercalate fs};{",".intercalate is};docs={live.length},reader={reader})")
  let reps := sortNames (w.n.mem.reps.map (fun r => r.1 ++ ":" ++ toString r.2.length))
  s!"cols=[{" ".intercalate (sortNames cols)}] p2p=[{",".intercalate (sortNames w.n.mem.p2p)}] reps=[{",".intercalate reps}]"

def applyOp (w : W) (op : Op) : W := { w with n := Defra.Restart.step w.n op }

def step (w : W) (toks : List String) : W × String :=
  match toks with
  | ["case", _] => ({}, "ok")
  | ["start"] => (w, "ok")
  | ["schema", t] =>
    let (fs, ix) := catalogue t
    (applyOp w (.addCol t fs ix), "ok")
  -- a schema operation inside a transaction that is discarded leaves the node as it was
  -- a node opened on the store contents as of a completed operation is the running node (`run_coherent`)
  | ["crashcopy"] => (w, "same")
  | ["txschema", _] => (w, "discarded")
  | ["txpatch", _, _] => (w, "discarded")
  | ["policy"] => (applyOp w (.addCol "P" ["name", "age"] []), "ok")
  | ["index", t, f, _] =>
    if !hasCol w t then (w, "error") else
    let w' := applyOp w (.createIndex t f)
    match (w'.n.mem.cols.find? (·.name == t)).bind (fun c => c.indexes.getLast?) with
    | some ix => (w', s!"ok name={ix.name} id={ix.id}")
    | none => (w', "error")
  | ["dropindex", t, k] =>
    match w.n.mem.cols.find? (·.name == t) with
    | none => (w, "error")
    | some c =>
      let names := sortNames (c.indexes.map (·.name))
      if names.isEmpty then (w, "none")
      else (applyOp w (.dropIndex t k.toNat!), "ok " ++ (names[k.toNat! % names.length]?.getD ""))
  | ["patch", t, f] => (applyOp w (.addField t f), "ok")
  | "create" :: t :: label :: _ =>
    if hasCol w t then ({ w with docs := w.docs ++ [{ label := label, col := t }] }, "ok") else (w, "error")
  | "update" :: label :: _ =>
    match w.docs.find? (·.label == label) with
    | some d => (w, if d.deleted then "failed" else "ok")
    | none => (w, "no-doc")
  | ["delete", label] =>
    match w.docs.find? (·.label == label) with
    | some d =>
      if d.deleted then (w, "absent")
      else ({ w with docs := w.docs.map (fun x => if x.label == label then { x with deleted := true } else x) }, "ok")
    | none => (w, "no-doc")
  | ["grant", label] =>
    match w.docs.find? (·.label == label) with
    | some _ => ({ w with docs := w.docs.map (fun x => if x.label == label then { x with granted := true } else x) }, "ok")
    | none => (w, "no-doc")
  | ["revoke", label] =>
    match w.docs.find? (·.label == label) with
    | some _ => ({ w with docs := w.docs.map (fun x => if x.label == label then { x with granted := false } else x) }, "ok")
    | none => (w, "no-doc")
  | ["p2pcol", "add", t] => (applyOp w (.p2pAdd t), "ok")
  | ["p2pcol", "remove", t] => (applyOp w (.p2pRemove t), "ok")
  | ["replicator", "set", tgt, t] => (applyOp w (.repSet tgt t), "ok")
  | ["replicator", "del", tgt, t] =>
    if (w.n.mem.reps.find? (·.1 == tgt)).isNone then (w, "error:replicator_not_found") else (applyOp w (.repDel tgt t), "ok")
  | ["restart"] => (applyOp w .restart, "ok")
  | ["restartnow"] => (applyOp w .restart, "ok")
  | ["dump"] => (w, dumpLine w)
  | _ => (w, "bad-op")

end Driver.Restart
