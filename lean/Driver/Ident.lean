import DefraModel.Ident.Cbor
open Defra Defra.Ident

namespace Driver.Ident

def parseFV (s : String) : Option FV :=
  if s == "n" then some .null
  else if s == "b1" then some (.bool true)
  else if s == "b0" then some (.bool false)
  else if s.startsWith "i" then (s.drop 1).toString.toInt?.map .int
  else if s.startsWith "f" then (s.drop 1).toString.toInt?.map .flt
  else if s.startsWith "s" then (Bytes.ofHex (if (s.drop 1).toString == "" then "-" else (s.drop 1).toString)).map .str
  else none

def step (toks : List String) : String :=
  match toks with
  | "docbytes" :: fields =>
    let parsed := fields.filterMap (fun t => match t.splitOn "=" with
      | [k, v] => (parseFV v).map (fun x => (k.toUTF8.toList.map (·.toNat), x))
      | _ => none)
    if parsed.length != fields.length then "bad-op" else Bytes.render (docBytes parsed)
  | "schema" :: _ => "ok"
  | _ => "bad-op"

end Driver.Ident
