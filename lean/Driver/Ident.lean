import DefraModel.Ident.Cbor
import DefraModel.Ident.SchemaSets
open Defra Defra.Ident

namespace Driver.Ident

def parseFV (s : String) : Option FV :=
  if s == "n" then some .null
  else if s == "b1" then some (.bool true)
  else if s == "b0" then some (.bool false)
  else if s.startsWith "i" then (s.drop 1).toString.toInt?.map .int
  else if s.startsWith "F" then (s.drop 1).toString.toNat?.map .f64
  else if s.startsWith "f" then (s.drop 1).toString.toInt?.map .flt
  else if s.startsWith "as" then
    let body := (s.drop 2).toString
    if body == "" then some (.arrStr []) else
    ((body.splitOn ",").mapM (fun (t : String) => Bytes.ofHex (if t == "" then "-" else t))).map .arrStr
  else if s.startsWith "ai" then
    let body := (s.drop 2).toString
    if body == "" then some (.arrInt []) else ((body.splitOn ",").mapM (fun (t : String) => t.toInt?)).map .arrInt
  else if s.startsWith "ab" then
    let body := (s.drop 2).toString
    if body == "" then some (.arrBool []) else some (.arrBool ((body.splitOn ",").map (fun (t : String) => t == "1")))
  else if s.startsWith "oi" then (s.drop 2).toString.toNat?.map .optArr
  else if s.startsWith "s" then (Bytes.ofHex (if (s.drop 1).toString == "" then "-" else (s.drop 1).toString)).map .str
  else none

/-- `sets A->B+C,B->,C->A`: the schema sets of the type graph (edges as the schema descriptions hold them), every
    type with the first member of its set and its index among the members sorted by name; `-` for a set of one.
    `HYPOTHESIS-FALSE` would mean the closure did not reach its fixed point (the theorems then say nothing). -/
def setsLine (spec : String) : String :=
  let defs := (spec.splitOn ",").map (fun d => match d.splitOn "->" with
    | [n, rs] => (n, (rs.splitOn "+").filter (· ≠ ""))
    | _ => (d, []))
  let names := (defs.map (·.1)).toArray.qsort (· < ·) |>.toList
  let idx (n : String) : Nat := (names.findIdx (· == n))
  -- references to types that are not defined map to an index beyond the nodes (dropped by `succs`)
  let g : SchemaSets.G := defs.map (fun (n, rs) => ⟨idx n, rs.map idx⟩)
  let hyp := SchemaSets.allClosedB g
  let parts := names.map (fun n =>
    let members := ((SchemaSets.setOf g (idx n)).toArray.qsort (· < ·)).toList
    match members with
    | [_] => s!"{n}=-"
    | _ => s!"{n}={names.getD (members.headD 0) "?"}#{members.findIdx (· == idx n)}")
  " ".intercalate parts ++ (if hyp then "" else " HYPOTHESIS-FALSE")

def step (toks : List String) : String :=
  match toks with
  | "docbytes" :: fields =>
    let parsed := fields.filterMap (fun t => match t.splitOn "=" with
      | [k, v] => (parseFV v).map (fun x => (k.toUTF8.toList.map (·.toNat), x))
      | _ => none)
    if parsed.length != fields.length then "bad-op" else Bytes.render (docBytes parsed)
  | "schema" :: _ => "ok"
  | ["sets", spec] => setsLine spec
  | _ => "bad-op"

end Driver.Ident
