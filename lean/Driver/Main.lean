import Driver.Enc

partial def loop (h : IO.FS.Stream) (out : IO.FS.Stream) (f : List String → String) : IO Unit := do
  let line ← h.getLine
  if line.isEmpty then return ()
  let toks := (line.trimAscii.toString.splitOn " ").filter (· ≠ "")
  out.putStrLn (f toks)
  loop h out f

def main (args : List String) : IO UInt32 := do
  let stdin ← IO.getStdin
  let stdout ← IO.getStdout
  match args with
  | ["enc"] => loop stdin stdout Driver.Enc.step; return 0
  | _ => IO.eprintln "usage: drv <engine>"; return 2
