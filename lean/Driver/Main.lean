import Driver.Enc
import Driver.Crdt
import Driver.Fault
import Driver.Events
import Driver.Mvcc
import Driver.Query
import Driver.Ident
import Driver.Sign
import Driver.Encr
import Driver.Acp
import Driver.Rel
import Driver.Schema
import Driver.Restart
import Driver.Conc
import Driver.Repl
import Driver.Idxm
import Driver.Backup

partial def loop (h : IO.FS.Stream) (out : IO.FS.Stream) (f : List String → String) : IO Unit := do
  let line ← h.getLine
  if line.isEmpty then return ()
  let toks := (line.trimAscii.toString.splitOn " ").filter (· ≠ "")
  out.putStrLn (f toks)
  loop h out f

partial def loopS {σ : Type} (h : IO.FS.Stream) (out : IO.FS.Stream) (f : σ → List String → σ × String) (s : σ) : IO Unit := do
  let line ← h.getLine
  if line.isEmpty then return ()
  let toks := (line.trimAscii.toString.splitOn " ").filter (· ≠ "")
  let (s', o) := f s toks
  out.putStrLn o
  loopS h out f s'

def main (args : List String) : IO UInt32 := do
  let stdin ← IO.getStdin
  let stdout ← IO.getStdout
  match args with
  | ["enc"] => loop stdin stdout Driver.Enc.step; return 0
  | ["ident"] => loop stdin stdout Driver.Ident.step; return 0
  | ["sign"] => loop stdin stdout Driver.Sign.step; return 0
  | ["fault"] => loop stdin stdout Driver.Fault.step; return 0
  | ["acp"] => loopS stdin stdout Driver.Acp.step ({} : Driver.Acp.W); return 0
  | ["rel"] => loopS stdin stdout Driver.Rel.step ({} : Driver.Rel.W); return 0
  | ["schema"] => loopS stdin stdout Driver.Schema.step ({} : Driver.Schema.W); return 0
  | ["restart"] => loopS stdin stdout Driver.Restart.step ({} : Driver.Restart.W); return 0
  | ["conc"] => loopS stdin stdout Driver.Conc.step ({} : Driver.Conc.W); return 0
  | ["repl"] => loopS stdin stdout Driver.Repl.step ({} : Driver.Repl.W); return 0
  | ["idxm"] => loopS stdin stdout Driver.Idxm.step ({} : Driver.Idxm.W); return 0
  | ["backup"] => loopS stdin stdout Driver.Backup.step ({} : Driver.Backup.W); return 0
  | ["encr"] => loopS stdin stdout Driver.Encr.step ({} : Driver.Encr.W); return 0
  | ["events"] => loopS stdin stdout Driver.Events.step ({} : Driver.Events.St); return 0
  | ["mvcc"] => loopS stdin stdout Driver.Mvcc.step ({} : Defra.Mvcc.DB); return 0
  | ["query"] => loopS stdin stdout Driver.Query.step ({} : Driver.Query.St); return 0
  | ["crdt"] => loopS stdin stdout Driver.Crdt.step ({} : Driver.Crdt.World); return 0
  | _ => IO.eprintln "usage: drv <engine>"; return 2
