import DefraModel.Conc
open Defra.Conc

/-! `drv conc`: replays the acknowledged history of a concurrent run and judges the observed final state. -/
namespace Driver.Conc

structure W where
  hist : List Call := []
  pending : Bool := false

def outcomeOf (s : String) : Outcome :=
  if s == "ok" then .ok else if s == "conflict" then .conflict else .error

def sortStr (l : List String) : List String := (l.toArray.qsort (· < ·)).toList

def step (w : W) (toks : List String) : W × String :=
  match toks with
  | ["case", _] => ({}, "ok")
  | "accounts" :: _ => (w, "ok")
  | "plan" :: _ => (w, "ok")
  | "remote" :: "inc" :: a :: d :: _ => ({ w with hist := w.hist ++ [.mergedInc a.toNat! d.toInt!] }, "ok")
  | ["remote", "create", l] => ({ w with hist := w.hist ++ [.mergedCreate l] }, "ok")
  | ["remote", _] => (w, "ok")
  | ["remote", _, "burst"] => (w, "ok")
  | ["shared", _] => (w, "ok")
  | ["ack", "inc", a, d, o] => ({ w with hist := w.hist ++ [.inc a.toNat! d.toInt! (outcomeOf o)] }, "ok")
  | ["ack", "set", a, v, o] => ({ w with hist := w.hist ++ [.set a.toNat! v (outcomeOf o)] }, "ok")
  | ["ack", "create", l, o] => ({ w with hist := w.hist ++ [.create l (outcomeOf o)] }, "ok")
  | ["ack", "delete", l, o] => ({ w with hist := w.hist ++ [.delete l (outcomeOf o)] }, "ok")
  | "ack" :: "query" :: _ => (w, "ok")
  | "merges" :: _ => ({ w with pending := true }, "ok")
  | ["final", "counter", a, v] =>
    let want := expectedCounter w.hist a.toNat!
    if v.toInt! == want || w.pending then (w, "ok") else (w, s!"counter-not-sum expected={want}")
  | ["final", "note", a, v] =>
    let vals := writtenValues w.hist a.toNat!
    if (v == "-" && vals.isEmpty) || vals.contains v then (w, "ok") else (w, "register-not-an-acknowledged-write")
  | "final" :: "items" :: rest =>
    let got := sortStr ((rest.headD "").splitOn "," |>.filter (· ≠ ""))
    let fin := (run w.hist).items
    let want := sortStr fin
    if got == want then (w, "ok")
    else if w.pending && (want.filter (fun l => !got.contains l)).all (fun l => l.startsWith "r") &&
        got.all (fun l => want.contains l) then (w, "ok")
    else (w, "items-differ expected=" ++ ",".intercalate want)
  | ["final", "panics", n] => (w, if n == "0" then "ok" else "panics")
  | _ => (w, "bad-op")

end Driver.Conc
