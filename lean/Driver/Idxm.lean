import DefraModel.Index.Multi
open Defra Defra.Query Defra.IndexMulti

/-! `drv idxm`: replays the `idxm` harness's histories (documents with array fields, composite / unique indexes,
    filters with `_any` / `_all` / `_none`) on the model of `Index/Multi.lean`. -/
namespace Driver.Idxm

structure W where
  s : St := {}
  deriving Inhabited

def strV (s : String) : V := .str (s.toUTF8.toList.map (·.toNat))

def scalarV (f s : String) : V :=
  if s == "~" then .null
  else if f == "name" || f == "tags" then strV s
  else match s.toInt? with
    | some i => .int i
    | none => .null

def arrV (f s : String) : Option (List V) :=
  if s == "~" then none
  else if s == "[]" then some []
  else some ((s.splitOn ",").map (scalarV f))

def parseCmp : String → Option Cmp
  | "eq" => some .eq | "ne" => some .ne | "gt" => some .gt | "ge" => some .ge
  | "lt" => some .lt | "le" => some .le | "in" => some .inn | "nin" => some .nin
  | _ => none

def parseQuant : String → Option Quant
  | "any" => some .any | "all" => some .all | "none" => some .none
  | _ => none

def parseAtom (a : String) : Option Atom :=
  match a.splitOn ":" with
  | [f, c, vs] => (parseCmp c).map (fun c => Atom.sc f c ((vs.splitOn ",").map (scalarV f)))
  | [f, q, c, vs] =>
    match parseQuant q, parseCmp c with
    | some q, some c => some (Atom.arr f q c ((vs.splitOn ",").map (scalarV f)))
    | _, _ => none
  | _ => none

def parseFilter (s : String) : Option Filter :=
  (s.splitOn "|").mapM (fun conj => (conj.splitOn "&").mapM parseAtom)

def insertNat (x : Nat) : List Nat → List Nat
  | [] => [x]
  | y :: ys => if x ≤ y then x :: y :: ys else y :: insertNat x ys

def sortNat (l : List Nat) : List Nat := l.foldl (fun acc x => insertNat x acc) []

def showKs (l : List Nat) : String :=
  if l.isEmpty then "-" else ",".intercalate ((sortNat l).map toString)

def verdict (b : Bool) : String := if b then "ok" else "rejected"

def step (w : W) (toks : List String) : W × String :=
  match toks with
  | ["case", _] => ({}, "ok")
  | ["patch", _] => (w, "ok")  -- a field no document holds and no index covers: nothing changes
  | ["idx", "n", _] => (w, "ok")
  | ["idx", "u", fs] =>
    -- the direction of a field does not matter for uniqueness
    let fields := (fs.splitOn ",").map (fun f => (f.splitOn ":").headD f)
    let (s', ok) := IndexMulti.step w.s (.addUnique fields)
    ({ s := s' }, verdict ok)
  | "doc" :: k :: name :: age :: nums :: tags :: _meta =>
    let d : MDoc := ⟨k.toNat?.getD 0, scalarV "name" name, scalarV "age" age, arrV "nums" nums, arrV "tags" tags⟩
    let (s', ok) := IndexMulti.step w.s (.create d)
    ({ s := s' }, verdict ok)
  | "upd" :: k :: "meta" :: _ =>
    (w, if w.s.docs.any (·.k == k.toNat?.getD 0) then "ok" else "no-doc")
  | ["upd", k, f, v] =>
    match w.s.docs.find? (·.k == k.toNat?.getD 0) with
    | none => (w, "no-doc")
    | some d =>
      let d' : MDoc :=
        if f == "name" then { d with name := scalarV f v }
        else if f == "age" then { d with age := scalarV f v }
        else if f == "nums" then { d with nums := arrV f v }
        else if f == "tags" then { d with tags := arrV f v }
        else d
      let (s', ok) := IndexMulti.step w.s (.update d')
      ({ s := s' }, verdict ok)
  | ["del", k] =>
    if w.s.docs.any (·.k == k.toNat?.getD 0) then ({ s := (IndexMulti.step w.s (.delete (k.toNat?.getD 0))).1 }, "ok")
    else (w, "no-doc")
  | ["q", f] =>
    match parseFilter f with
    | some flt => (w, showKs (eval flt w.s.docs))
    | none => (w, "bad-filter")
  | "qj" :: _ => (w, "ok")
  | _ => (w, "bad-op")

end Driver.Idxm
