import DefraModel.Sign
open Defra.Sign

/-! `drv sign`: expected outcome classes, computed with the toy scheme on abstract blocks:
    which blocks carry a signature, what `DB.VerifySignature` reports per key, what the DAG sync entry point does
    per tampering. -/
namespace Driver.Sign

def content0 : Content := ⟨1, 1, [], [2], none⟩
def signer : Nat := 7
def other : Nat := 8

def tampered (name : String) : Content :=
  if name == "delta-priority" then { content0 with priority := 2 }
  else if name == "heads-add" then { content0 with heads := [9] }
  else if name == "links-drop" then { content0 with links := [] }
  else if name == "encryption-link" then { content0 with encryption := some 5 }
  else if name == "delta-data" then { content0 with delta := 3 }
  else content0

def showCheck : KeyCheck → String
  | .ok => "ok" | .missing => "missing" | .mismatch => "mismatch" | .invalid => "invalid"

def step (toks : List String) : String :=
  let genuine : Block Nat (Nat × Content) := ⟨content0, some ⟨signer, toy.sign signer content0⟩⟩
  match toks with
  -- key level: a signature verifies under its key for its message and for no other (`toy` scheme: by definition)
  | ["keysweep", _, _] =>
    if toy.verify (toy.pk signer) content0 (toy.sign signer content0) && !toy.verify (toy.pk signer) (tampered "delta-data") (toy.sign signer content0)
    then "rejected=0 forged=0" else "scheme-broken"
  | ["carries", _, first] => if first == "prio1orComposite=1" then "1" else "0"
  | ["api", sig, key] =>
    let b : Block Nat (Nat × Content) := if sig == "sig=1" then genuine else ⟨content0, none⟩
    let k := if key == "key=signer" then signer else other
    showCheck (verifyWithKey toy b k)
  -- the receive path: a forged head is rejected on every delivery, also when an earlier rejected delivery left its
  -- block in the receiver's store (`accepted_means_all_genuine` holds per delivery)
  | ["recv", tam, _] =>
    let name := (tam.drop 7).toString
    let bad : Block Nat (Nat × Content) := ⟨tampered name, some ⟨signer, toy.sign signer content0⟩⟩
    if syncAccepts toy [bad] then "ok" else "invalid"
  | ["sync", "tamper=none"] => if syncAccepts toy [genuine] then "ok" else "invalid"
  | ["sync", tam, at_] =>
    let name := (tam.drop 7).toString
    let bad : Block Nat (Nat × Content) :=
      if name == "sig-value" then ⟨content0, some ⟨signer, (signer, { content0 with delta := 99 })⟩⟩
      else if name == "sig-identity-other" then ⟨content0, some ⟨other, toy.sign signer content0⟩⟩
      else if name == "sig-type" then ⟨content0, some ⟨other + 100, toy.sign signer content0⟩⟩
      else ⟨tampered name, some ⟨signer, toy.sign signer content0⟩⟩
    let reachable := if at_ == "at=linked" then [⟨content0, none⟩, bad] else [bad]
    if syncAccepts toy reachable then "ok" else "invalid"
  | _ => "bad-op"

end Driver.Sign
