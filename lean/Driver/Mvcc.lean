import DefraModel.Kv.Mvcc
open Defra.Mvcc

/-! `drv mvcc`: both streams of harness/txn (raw KV transactions on the real store; document operations
    through the API) replayed on the multi-version model. Keys / document labels and values are naturals. -/
namespace Driver.Mvcc

def showVal : Val → String
  | none => "-"
  | some v => toString v

/-- `UpdateWithFilter` / `DeleteWithFilter` inside transaction `i`: the documents are selected by the transaction's own
    view (snapshot overlaid with its writes); each selected document is read and written -/
def filterOp (db : DB) (i bound : Nat) (v : Val) : DB × String :=
  match db.txn? i with
  | none => (db, "notlive")
  | some t =>
    if !t.live then (db, "notlive")
    else
      let targets := (List.range 16).filter (fun k =>
        match t.see db.versions k with
        | some x => decide (x < bound)
        | none => false)
      let db' := targets.foldl (fun db k =>
        (Defra.Mvcc.step (Defra.Mvcc.step db (.read i k)).1 (.write i k v)).1) db
      (db', if targets.isEmpty then "-" else ",".intercalate (targets.map toString))

def step (db : DB) (toks : List String) : DB × String :=
  let nat (s : String) : Nat := s.toNat?.getD 0
  match toks with
  | ["case", _] | ["case", _, _] => ({}, "ok")
  | ["begin", i] | ["beginro", i] => ((Defra.Mvcc.step db (.begin (nat i))).1, "ok")
  | ["get", i, k] =>
    if nat i == 0 then
      match Defra.Mvcc.step db (.outsideRead (nat k)) with
      | (db', .val v) => (db', showVal v)
      | (db', _) => (db', "?")
    else match Defra.Mvcc.step db (.read (nat i) (nat k)) with
      | (db', .val v) => (db', showVal v)
      | (db', .notLive) => (db', "notlive")
      | (db', _) => (db', "?")
  | ["set", i, k, v] =>
    -- an update reads the document (footprint: read + write)
    let db1 := (Defra.Mvcc.step db (.read (nat i) (nat k))).1
    ((Defra.Mvcc.step db1 (.write (nat i) (nat k) (some (nat v)))).1, "ok")
  | ["setf", i, bound, v] => filterOp db (nat i) (nat bound) (some (nat v))
  | ["delf", i, bound] => filterOp db (nat i) (nat bound) none
  | ["blindset", i, k, v] => ((Defra.Mvcc.step db (.write (nat i) (nat k) (some (nat v)))).1, "ok")
  | ["del", i, k] =>
    let db1 := (Defra.Mvcc.step db (.read (nat i) (nat k))).1
    ((Defra.Mvcc.step db1 (.write (nat i) (nat k) none)).1, "ok")
  | ["blinddel", i, k] => ((Defra.Mvcc.step db (.write (nat i) (nat k) none)).1, "ok")
  | ["commit", i, implResult] =>
    -- the implementation may report a conflict the model does not require (allowed); it must report one
    -- whenever the model does
    match db.txn? (nat i) with
    | none => (db, "notlive")
    | some t =>
      let must := t.live && !t.writes.isEmpty && hasConflict db.versions t
      if implResult == "conflict" then
        ((Defra.Mvcc.step db (.discard (nat i))).1, "conflict")
      else if must then ((Defra.Mvcc.step db (.commit (nat i))).1, "MUST-CONFLICT")
      else
        match Defra.Mvcc.step db (.commit (nat i)) with
        | (db', .committed) => (db', "ok")
        | (db', .conflict) => (db', "MUST-CONFLICT")
        | (db', _) => (db', "notlive")
  | ["ids", _] | ["query", _] | ["mkindex", _] | ["iquery", _] => (db, "ok")
  | ["discard", i] => ((Defra.Mvcc.step db (.discard (nat i))).1, "ok")
  | _ => (db, "bad-op")

end Driver.Mvcc
