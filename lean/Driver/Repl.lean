import DefraModel.Repl
open Defra.Repl

/-! `drv repl`: replays the `repl` harness's histories on the replication model. -/
namespace Driver.Repl

structure W where
  s : St := {}
  labels : List String := []

def sortStr (l : List String) : List String := (l.toArray.qsort (· < ·)).toList

def idx (w : W) (l : String) : Option Nat := w.labels.findIdx? (· == l)

def book (w : W) : String :=
  let owed := sortStr (w.s.owed.map (fun d => w.labels[d]?.getD "?"))
  let status := if !w.s.hasRep then "none" else if w.s.active then "active" else "inactive"
  s!"record={if w.s.record then 1 else 0} retrying={if w.s.retrying then 1 else 0} owed=[{",".intercalate owed}] status={status}"

def step (w : W) (toks : List String) : W × String :=
  match toks with
  | ["case", _] => ({}, "ok")
  | ["case", _, mode] => ({ s := { hasRep := mode == "rep" } }, "ok")
  | ["start"] => (w, book w)
  | "create" :: label :: _ =>
    let d := w.labels.length
    let w := { w with labels := w.labels ++ [label] }
    let w := { w with s := Defra.Repl.step w.s (.write d) }
    (w, book w)
  | "update" :: label :: _ =>
    match idx w label with
    | some d => let w := { w with s := Defra.Repl.step w.s (.write d) }; (w, book w)
    | none => (w, "error")
  | ["down"] => ({ w with s := Defra.Repl.step w.s .down }, "ok")
  | ["up"] => ({ w with s := Defra.Repl.step w.s .up }, "ok")
  -- a receiver whose DAG sync cannot complete fails every push exactly like one that is down
  | ["slow"] => ({ w with s := Defra.Repl.step w.s .down }, "ok")
  -- B does not answer: to A's bookkeeping the same as an unreachable B (the push is given up after the timeout)
  | ["hang"] => ({ w with s := Defra.Repl.step w.s .down }, "ok")
  | ["unhang"] => ({ w with s := Defra.Repl.step w.s .up }, "ok")
  | ["fast"] => ({ w with s := Defra.Repl.step w.s .up }, "ok")
  | ["patch", _] => (w, "ok")
  | ["retry"] => let w := { w with s := Defra.Repl.step w.s .retry }; (w, book w)
  | ["settle"] =>
    let missing := (List.range w.labels.length).filter (fun d => ver w.s.b d != ver w.s.a d)
    if missing.isEmpty || !w.s.hasRep then (w, "equal")
    else (w, "differs:" ++ ",".intercalate (sortStr (missing.map (fun d => w.labels[d]?.getD "?"))))
  | _ => (w, "bad-op")

end Driver.Repl
