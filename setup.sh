#!/bin/sh
# Build the framework from files on disk only (offline). Run once after a fresh restore.
set -e
cd "$(dirname "$0")"
export GOFLAGS=-mod=mod GOPROXY=off
unset GOTOOLCHAIN
(cd lean && lake build 2>&1 | tail -5)
python3 checks/warmup.py
echo setup-ok
